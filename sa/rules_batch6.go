package main

// Rules written against the sixth batch of seeded changes.

import (
	"fmt"
	"go/token"
	"go/types"

	"golang.org/x/tools/go/ssa"
)

// ---------------------------------------------------------------- R-dict-scan-complete

const textDictScan = "R-dict-scan-complete: a counting loop over the bucket array of the dictionary (`for i := 0; i+c < len(buckets); i += s`) starts at 0 and stops only at the end of the array: the constant c added to the counter in the loop condition is smaller than the step (the table length is a multiple of the step: it is a power of two). The scan that decides whether the table may be halved looks at every even/odd pair; `i+2 < len` leaves the last pair out, the table is halved although two entries collide, and one of them — a set member, a hash field or a whole key that nobody removed — is overwritten"

func ruleDictScanComplete(c *Ctx) {
	const id = "R-dict-scan-complete"
	c.S.Rule(id, textDictScan, 1)
	var fBuckets *types.Var
	if nt := c.NamedType("redisDict"); nt != nil {
		if st, ok := nt.Underlying().(*types.Struct); ok {
			for i := 0; i < st.NumFields(); i++ {
				if _, ok := st.Field(i).Type().Underlying().(*types.Slice); ok {
					fBuckets = st.Field(i)
				}
			}
		}
	}
	if fBuckets == nil {
		c.S.Undecided(id, "anchors", "-", "bucket array of the dictionary not found")
		return
	}
	isLenBuckets := func(v ssa.Value) bool {
		call, ok := v.(*ssa.Call)
		if !ok {
			return false
		}
		b, ok := call.Call.Value.(*ssa.Builtin)
		if !ok || b.Name() != "len" {
			return false
		}
		_, f := loadedField(call.Call.Args[0])
		return f == fBuckets
	}
	n := 0
	for _, fn := range c.SrcFuncs() {
		k := 0
		for _, b := range fn.Blocks {
			ifi, ok := b.Instrs[len(b.Instrs)-1].(*ssa.If)
			if !ok {
				continue
			}
			bo, ok := ifi.Cond.(*ssa.BinOp)
			if !ok {
				continue
			}
			var lhs, rhs ssa.Value
			switch bo.Op {
			case token.LSS:
				lhs, rhs = bo.X, bo.Y
			case token.GTR:
				lhs, rhs = bo.Y, bo.X
			case token.LEQ, token.GEQ, token.NEQ:
				lhs, rhs = bo.X, bo.Y
			default:
				continue
			}
			lt, rt := normLin(lhs), normLin(rhs)
			if isLenBuckets(lt.base) {
				lt, rt = rt, lt
			}
			if !isLenBuckets(rt.base) {
				continue
			}
			phi, ok := lt.base.(*ssa.Phi)
			if !ok || len(phi.Edges) != 2 {
				continue
			}
			// counter: one edge a constant, the other the counter plus a positive constant
			var init, step int64
			okInit, okStep := false, false
			for _, e := range phi.Edges {
				if v, isC := constInt(e); isC {
					init, okInit = v, true
					continue
				}
				t := normLin(e)
				if t.base == ssa.Value(phi) && t.k > 0 {
					step, okStep = t.k, true
				}
			}
			if !okInit || !okStep {
				continue
			}
			k++
			n++
			key := fmt.Sprintf("%s:bucket-loop#%d", fnName(fn), k)
			pos := c.Pos(ifi.Cond.Pos())
			if bo.Op != token.LSS && bo.Op != token.GTR {
				c.S.Undecided(id, key, pos, "loop over the bucket array with a condition that is not `counter < length`")
				continue
			}
			off := lt.k - rt.k // counter + off < len
			first := init
			if lt.base == ssa.Value(phi) && b == phi.Block() {
				// condition tested on the merged counter itself
			}
			switch {
			case init == -1 && step == 1 && off == 1:
				c.S.OK(id, key, pos, "range loop over the bucket array")
			case first != 0:
				c.S.Bad(id, key, pos, fmt.Sprintf("%s scans the bucket array from %d, not from 0", fnName(fn), first))
			case off >= step:
				c.S.Bad(id, key, pos, fmt.Sprintf("%s stops its scan of the bucket array %d before the end (step %d): the last buckets are never looked at, and a table with two colliding entries there is halved over them", fnName(fn), off, step))
			case off < 0:
				c.S.Undecided(id, key, pos, "loop bound beyond the length of the bucket array")
			default:
				c.S.OK(id, key, pos, fmt.Sprintf("counter from 0, step %d, tested as counter+%d < len(buckets)", step, off))
			}
		}
	}
	if n == 0 {
		c.S.Trivial(id, "none", "-", "no counting loop over the bucket array")
	}
}

// ---------------------------------------------------------------- R-empty-removes-own-key

const textEmptyOwnKey = "R-empty-removes-own-key: where a command removes a key from the keyspace because the aggregate it just took an element from became empty (`if x.count == 0 { remove(name) }`), the name removed is the one that aggregate was looked up under. SMOVE of the last member that removes the destination instead deletes the set the member was just moved into and leaves an empty source set behind"

// aggNameOrigins: the key-name arguments of the lookups an aggregate value comes from
func aggNameOrigins(c *Ctx, v ssa.Value, depth int, seen map[ssa.Value]bool, out map[ssa.Value]bool) bool {
	if v == nil || depth > 8 {
		return false
	}
	if seen[v] {
		return true
	}
	seen[v] = true
	isStr := func(t types.Type) bool {
		b, ok := t.Underlying().(*types.Basic)
		return ok && b.Kind() == types.String
	}
	switch x := v.(type) {
	case *ssa.Phi:
		for _, e := range x.Edges {
			if isNilConst(e) {
				continue
			}
			if !aggNameOrigins(c, e, depth+1, seen, out) {
				return false
			}
		}
		return true
	case *ssa.Extract:
		return aggNameOrigins(c, x.Tuple, depth+1, seen, out)
	case *ssa.TypeAssert:
		return aggNameOrigins(c, x.X, depth+1, seen, out)
	case *ssa.Call:
		g := x.Call.StaticCallee()
		if g == nil || !c.InPkg(g) {
			return false
		}
		if computesAggregate(c, g) {
			return false // a worker that builds a new aggregate from its operands: not stored under any of the names
		}
		for _, a := range x.Call.Args {
			if isStr(a.Type()) {
				out[a] = true
				return true
			}
		}
		// an accessor of the key object (getSet, getList…): the key object's origin
		if len(x.Call.Args) >= 1 && c.isPkgType(x.Call.Args[0].Type(), "storeKey") {
			return aggNameOrigins(c, x.Call.Args[0], depth+1, seen, out)
		}
		return false
	case *ssa.UnOp:
		if x.Op != token.MUL {
			return false
		}
		if al, ok := x.X.(*ssa.Alloc); ok {
			okAll := false
			for _, r := range referrers(al) {
				if st, ok := r.(*ssa.Store); ok && st.Addr == ssa.Value(al) && !isNilConst(st.Val) {
					if !aggNameOrigins(c, st.Val, depth+1, seen, out) {
						return false
					}
					okAll = true
				}
			}
			return okAll
		}
		// the payload field of a key object
		if fa, ok := x.X.(*ssa.FieldAddr); ok && c.isPkgType(fa.X.Type(), "storeKey") {
			return aggNameOrigins(c, fa.X, depth+1, seen, out)
		}
	}
	return false
}

func sameNameValue(a, b ssa.Value) bool {
	if a == b || sameValue(a, b) {
		return true
	}
	if ca, _ := singleStoreCell(a); ca != nil {
		if cb, _ := singleStoreCell(b); cb == ca {
			return true
		}
	}
	ka, oka := a.(*ssa.Const)
	kb, okb := b.(*ssa.Const)
	return oka && okb && ka.Value != nil && kb.Value != nil && ka.Value.ExactString() == kb.Value.ExactString()
}

// removesKeyParam: g removes the key named by its parameter p from the keyspace (directly or through one helper)
func removesKeyParam(c *Ctx, g *ssa.Function, p *ssa.Parameter, depth int) bool {
	if g == nil || depth > 2 {
		return false
	}
	mm := c.M.Muts()
	fKs := c.Field("dataStore", "data")
	for _, in := range instrsOf(g) {
		call, ok := in.(ssa.CallInstruction)
		if !ok {
			continue
		}
		h := call.Common().StaticCallee()
		if h == nil {
			continue
		}
		args := call.Common().Args
		if mm.dictRem[h] && len(args) >= 2 && args[1] == ssa.Value(p) {
			if _, f := loadedField(args[0]); f == fKs {
				return true
			}
		}
		if c.InPkg(h) {
			for i, a := range args {
				if a == ssa.Value(p) && i < len(h.Params) && removesKeyParam(c, h, h.Params[i], depth+1) {
					return true
				}
			}
		}
	}
	return false
}

func ruleEmptyRemovesOwnKey(c *Ctx) {
	const id = "R-empty-removes-own-key"
	c.S.Rule(id, textEmptyOwnKey, 1)
	mm := c.M.Muts()
	fKs := c.Field("dataStore", "data")
	cnt := map[*types.Var]bool{}
	for _, t := range []string{"storeList", "redisDict"} {
		if f := c.Field(t, "count"); f != nil {
			cnt[f] = true
		}
	}
	if fKs == nil || len(cnt) == 0 || len(mm.errs) > 0 {
		c.S.Undecided(id, "anchors", "-", "keyspace field / element counts / mutation model not available")
		return
	}
	n := 0
	for _, fn := range c.SrcFuncs() {
		k := 0
		for _, b := range fn.Blocks {
			ifi, ok := b.Instrs[len(b.Instrs)-1].(*ssa.If)
			if !ok {
				continue
			}
			bo, ok := ifi.Cond.(*ssa.BinOp)
			if !ok || (bo.Op != token.EQL && bo.Op != token.LEQ) {
				continue
			}
			if z, isC := constInt(bo.Y); !isC || z != 0 {
				continue
			}
			base, f := loadedField(bo.X)
			if !cnt[f] || base == nil {
				continue
			}
			ts := b.Succs[0]
			if len(ts.Preds) != 1 {
				continue
			}
			out := map[ssa.Value]bool{}
			if !aggNameOrigins(c, base, 0, map[ssa.Value]bool{}, out) || len(out) == 0 {
				continue
			}
			for _, rb := range fn.Blocks {
				if !ts.Dominates(rb) {
					continue
				}
				for _, in := range rb.Instrs {
					call, ok := in.(ssa.CallInstruction)
					if !ok {
						continue
					}
					h := call.Common().StaticCallee()
					if h == nil {
						continue
					}
					args := call.Common().Args
					var name ssa.Value
					if mm.dictRem[h] && len(args) >= 2 {
						if _, ff := loadedField(args[0]); ff == fKs {
							name = args[1]
						}
					} else if c.InPkg(h) {
						for i, a := range args {
							if i < len(h.Params) && removesKeyParam(c, h, h.Params[i], 0) {
								name = a
							}
						}
					}
					if name == nil {
						continue
					}
					k++
					n++
					key := fmt.Sprintf("%s:remove-when-empty#%d", fnName(fn), k)
					agree := true
					for o := range out {
						if !sameNameValue(o, name) {
							agree = false
						}
					}
					if agree {
						c.S.OK(id, key, c.Pos(in.Pos()), "the key removed is the one the emptied aggregate was looked up under")
					} else {
						c.S.Bad(id, key, c.Pos(in.Pos()), fmt.Sprintf("%s tests whether an aggregate became empty and then removes a key it was not looked up under: the wrong key disappears and the empty one stays", fnName(fn)))
					}
				}
			}
		}
	}
	if n == 0 {
		c.S.Trivial(id, "none", "-", "no removal of a key guarded by the emptiness of an aggregate looked up in the same function")
	}
}

// ---------------------------------------------------------------- R-C19-file-index

const textFileIndex = "R-C19-file-index: the snapshot of a database is written to the file named after that database's index: the number handed to the file-name function in the save loop is the key of the very map iteration step that yields the database being saved (or is read from the database object). The position in a slice of databases is not an index — `for index, ds := range dss.allDbs()` writes database 5 to the file of database 0, and after a restart its keys answer in another database"

// nextSteps: the map-iteration steps (ssa.Next over a map) v derives from, with the tuple position (1 key, 2 value)
func nextSteps(v ssa.Value, seen map[ssa.Value]bool, out map[*ssa.Next]int) {
	if v == nil || seen[v] {
		return
	}
	seen[v] = true
	switch x := v.(type) {
	case *ssa.Extract:
		if n, ok := x.Tuple.(*ssa.Next); ok && !n.IsString {
			out[n] |= 1 << uint(x.Index)
			return
		}
		nextSteps(x.Tuple, seen, out)
	case *ssa.Call:
		for _, a := range x.Call.Args {
			nextSteps(a, seen, out)
		}
		if !x.Call.IsInvoke() {
			if _, ok := x.Call.Value.(*ssa.Function); !ok {
				nextSteps(x.Call.Value, seen, out)
			}
		}
	case *ssa.Convert:
		nextSteps(x.X, seen, out)
	case *ssa.ChangeType:
		nextSteps(x.X, seen, out)
	case *ssa.MakeInterface:
		nextSteps(x.X, seen, out)
	case *ssa.Phi:
		for _, e := range x.Edges {
			nextSteps(e, seen, out)
		}
	case *ssa.UnOp:
		if x.Op == token.MUL {
			if al, ok := x.X.(*ssa.Alloc); ok {
				for _, r := range referrers(al) {
					if st, ok := r.(*ssa.Store); ok && st.Addr == ssa.Value(al) {
						nextSteps(st.Val, seen, out)
					}
				}
			}
		}
	}
}

func ruleC19FileIndex(c *Ctx) {
	const id = "R-C19-file-index"
	c.S.Rule(id, textFileIndex, 1)
	pa := c.persist()
	if len(pa.errs) > 0 {
		c.S.Undecided(id, "anchors", "-", pa.errs[0])
		return
	}
	// the file-name function: a package function with one integer among its parameters that yields a string (which is
	// then handed to the saving call)
	intArg := func(call *ssa.Call) ssa.Value {
		g := call.Call.StaticCallee()
		if g == nil || !c.InPkg(g) || g.Signature.Results().Len() != 1 {
			return nil
		}
		if rb, ok := g.Signature.Results().At(0).Type().Underlying().(*types.Basic); !ok || rb.Kind() != types.String {
			return nil
		}
		var idx ssa.Value
		cnt := 0
		for i, a := range call.Call.Args {
			if i == 0 && g.Signature.Recv() != nil {
				continue
			}
			if pb, ok := a.Type().Underlying().(*types.Basic); ok && pb.Info()&types.IsInteger != 0 {
				idx = a
				cnt++
			}
		}
		if cnt != 1 {
			return nil
		}
		return idx
	}
	// paired: idx is the key of the map step whose value db derives from — directly, or (when both are parameters of a
	// callback) at every call site of that callback
	var paired func(fn *ssa.Function, idx ssa.Value, dbs []ssa.Value, depth int) bool
	paired = func(fn *ssa.Function, idx ssa.Value, dbs []ssa.Value, depth int) bool {
		if depth > 3 {
			return false
		}
		if base, f := loadedField(idx); f != nil && base != nil && c.isPkgType(base.Type(), "dataStore") {
			return true
		}
		ix := map[*ssa.Next]int{}
		nextSteps(idx, map[ssa.Value]bool{}, ix)
		db := map[*ssa.Next]int{}
		for _, a := range dbs {
			nextSteps(a, map[ssa.Value]bool{}, db)
		}
		for nx, bits := range ix {
			if bits == 1<<1 && db[nx]&(1<<2) != 0 && len(ix) == 1 {
				return true
			}
		}
		// a row of a snapshot slice: index and database are two fields of one element, and every row that is built
		// pairs the key and the value of one map step
		rowOf := func(v ssa.Value) (ssa.Value, *types.Var) {
			switch x := v.(type) {
			case *ssa.Field:
				if st, ok := x.X.Type().Underlying().(*types.Struct); ok {
					return x.X, st.Field(x.Field)
				}
			case *ssa.UnOp:
				if fa, ok := x.X.(*ssa.FieldAddr); ok && x.Op == token.MUL {
					return fa.X, fieldOf(fa)
				}
			}
			return nil, nil
		}
		if row, fIdx := rowOf(idx); row != nil {
			var fDb *types.Var
			for _, a := range dbs {
				seen := map[ssa.Value]bool{}
				var rec func(v ssa.Value, d int)
				rec = func(v ssa.Value, d int) {
					if v == nil || seen[v] || d > 5 {
						return
					}
					seen[v] = true
					if r2, f2 := rowOf(v); r2 != nil && (r2 == row || sameValue(r2, row)) {
						fDb = f2
						return
					}
					switch x := v.(type) {
					case *ssa.Call:
						for _, a2 := range x.Call.Args {
							rec(a2, d+1)
						}
					case *ssa.Extract:
						rec(x.Tuple, d+1)
					}
				}
				rec(a, 0)
			}
			if fDb != nil && fDb != fIdx {
				// every construction of such a row in this function
				builds, good := 0, true
				for _, in := range instrsOf(fn) {
					al, ok := in.(*ssa.Alloc)
					if !ok {
						continue
					}
					var vi, vd ssa.Value
					for _, r := range referrers(al) {
						if fa, ok := r.(*ssa.FieldAddr); ok {
							for _, r2 := range referrers(fa) {
								if st, ok := r2.(*ssa.Store); ok && st.Addr == ssa.Value(fa) {
									if fieldOf(fa) == fIdx {
										vi = st.Val
									}
									if fieldOf(fa) == fDb {
										vd = st.Val
									}
								}
							}
						}
					}
					if vi == nil && vd == nil {
						continue
					}
					builds++
					if vi == nil || vd == nil || !paired(fn, vi, []ssa.Value{vd}, depth+1) {
						good = false
					}
				}
				if builds > 0 && good {
					return true
				}
			}
		}
		// parameters of a callback
		pi := -1
		if p, ok := idx.(*ssa.Parameter); ok {
			for i, q := range fn.Params {
				if q == p {
					pi = i
				}
			}
		}
		if pi < 0 {
			return false
		}
		var pj []int
		for _, a := range dbs {
			seen := map[ssa.Value]bool{}
			var rec func(v ssa.Value, d int)
			rec = func(v ssa.Value, d int) {
				if v == nil || seen[v] || d > 5 {
					return
				}
				seen[v] = true
				switch x := v.(type) {
				case *ssa.Parameter:
					for i, q := range fn.Params {
						if q == x {
							pj = append(pj, i)
						}
					}
				case *ssa.Call:
					for _, a2 := range x.Call.Args {
						rec(a2, d+1)
					}
				case *ssa.Extract:
					rec(x.Tuple, d+1)
				}
			}
			rec(a, 0)
		}
		node := c.CG.Nodes[fn]
		if len(pj) == 0 || node == nil || len(node.In) == 0 {
			return false
		}
		for _, e := range node.In {
			args := e.Site.Common().Args
			if e.Site.Common().IsInvoke() || pi >= len(args) {
				return false
			}
			var dbArgs []ssa.Value
			for _, j := range pj {
				if j < len(args) {
					dbArgs = append(dbArgs, args[j])
				}
			}
			if !paired(e.Caller.Func, args[pi], dbArgs, depth+1) {
				return false
			}
		}
		return true
	}
	n := 0
	for _, fn := range c.SrcFuncs() {
		// the saving call(s) of this function
		var saves []*ssa.Call
		for _, in := range instrsOf(fn) {
			if call, ok := in.(*ssa.Call); ok {
				for _, g := range c.Callees(call) {
					if c.InPkg(g) && (g == pa.writer || c.M.Reach(g)[pa.writer]) {
						saves = append(saves, call)
						break
					}
				}
			}
		}
		if len(saves) == 0 {
			continue
		}
		k := 0
		for _, in := range instrsOf(fn) {
			call, ok := in.(*ssa.Call)
			if !ok {
				continue
			}
			idx := intArg(call)
			if idx == nil {
				continue
			}
			// used by a saving call?
			var user *ssa.Call
			for _, s := range saves {
				for _, a := range s.Call.Args {
					if a == ssa.Value(call) {
						user = s
					}
				}
			}
			if user == nil {
				continue
			}
			k++
			n++
			key := fmt.Sprintf("%s:file-name#%d", fnName(fn), k)
			var dbs []ssa.Value
			for _, a := range user.Call.Args {
				if a != ssa.Value(call) {
					dbs = append(dbs, a)
				}
			}
			if paired(fn, idx, dbs, 0) {
				c.S.OK(id, key, c.Pos(call.Pos()), "the index is the key of the map step whose value is the database saved (or is read from the database object)")
			} else {
				c.S.Bad(id, key, c.Pos(call.Pos()), fmt.Sprintf("%s names the snapshot file by a number that is not the table key of the database it saves (a slice position, a counter): databases are written to each other's files", fnName(fn)))
			}
		}
	}
	if n == 0 {
		c.S.Undecided(id, "save-loop", "-", "no call of the file-name function feeding a call that reaches the snapshot writer")
	}
}

// ---------------------------------------------------------------- R-C19-dirty-after-replace

const textDirtyAfterReplace = "R-C19-dirty-after-replace: the dirty mark lives in the keyspace dictionary, so a command that replaces the whole dictionary (FLUSHDB, FLUSHALL) marks the NEW dictionary: on every path from the store of the keyspace field to the end of the function there is a store of the dirty flag (or a call of the helper that sets it on the current dictionary). Marking first and replacing afterwards leaves the mark on the discarded dictionary: the saver skips the flushed database, the old snapshot stays on disk, and the flushed keys are back after a restart"

func ruleC19DirtyAfterReplace(c *Ctx) {
	const id = "R-C19-dirty-after-replace"
	c.S.Rule(id, textDirtyAfterReplace, 1)
	fKs := c.Field("dataStore", "data")
	fDirty := c.Field("redisDict", "dirty")
	hs, err := c.M.Handlers()
	if fKs == nil || fDirty == nil || err != nil {
		c.S.Undecided(id, "anchors", "-", "keyspace field / dirty flag / handlers not found")
		return
	}
	reach := map[*ssa.Function]bool{}
	for _, h := range hs {
		for f := range c.M.Reach(h) {
			reach[f] = true
		}
	}
	// marker helpers: store true into the dirty flag of the dictionary loaded from the keyspace field
	marks := func(in ssa.Instruction) bool {
		st, ok := isStoreTo(in, fDirty)
		if !ok {
			return false
		}
		if k, isC := st.Val.(*ssa.Const); !isC || k.Value == nil || k.Value.ExactString() != "true" {
			return false
		}
		return true
	}
	marker := map[*ssa.Function]bool{}
	for _, fn := range c.SrcFuncs() {
		for _, in := range instrsOf(fn) {
			if marks(in) {
				if fa, ok := in.(*ssa.Store).Addr.(*ssa.FieldAddr); ok {
					if _, f := loadedField(fa.X); f == fKs {
						marker[fn] = true
					}
				}
			}
		}
	}
	// a wrapper that does nothing else than call a marker on every path is a marker (setDirty → markDirtyUnlocked)
	for changed := true; changed; {
		changed = false
		for _, fn := range c.SrcFuncs() {
			if marker[fn] || len(fn.Blocks) != 1 {
				continue
			}
			for _, in := range fn.Blocks[0].Instrs {
				if call, ok := in.(*ssa.Call); ok && marker[call.Call.StaticCallee()] {
					marker[fn] = true
					changed = true
				}
			}
		}
	}
	n := 0
	for _, fn := range c.SrcFuncs() {
		if !reach[fn] {
			continue
		}
		k := 0
		for _, in := range instrsOf(fn) {
			st, ok := isStoreTo(in, fKs)
			if !ok {
				continue
			}
			if fa, ok := st.Addr.(*ssa.FieldAddr); ok && isFresh(fa.X) {
				continue // a database object under construction
			}
			k++
			n++
			key := fmt.Sprintf("%s:replace#%d", fnName(fn), k)
			isMark := func(in2 ssa.Instruction) bool {
				if marks(in2) {
					return true
				}
				if call, ok := in2.(*ssa.Call); ok { // not a deferred call: it must run after the store, which a plain call does
					if g := call.Call.StaticCallee(); g != nil && marker[g] {
						return true
					}
				}
				return false
			}
			bad := false
			seen := map[*ssa.BasicBlock]bool{}
			var walk func(b *ssa.BasicBlock, start int)
			walk = func(b *ssa.BasicBlock, start int) {
				for _, in2 := range b.Instrs[start:] {
					if isMark(in2) {
						return
					}
					if _, isRet := in2.(*ssa.Return); isRet {
						bad = true
						return
					}
				}
				for _, s := range b.Succs {
					if !seen[s] {
						seen[s] = true
						walk(s, 0)
					}
				}
			}
			walk(st.Block(), instrIndex(st)+1)
			if bad {
				c.S.Bad(id, key, c.Pos(st.Pos()), fmt.Sprintf("%s replaces the keyspace dictionary and returns without marking the new dictionary dirty: the emptied database is not saved and its old snapshot is loaded again at the next start", fnName(fn)))
			} else {
				c.S.OK(id, key, c.Pos(st.Pos()), "the new dictionary is marked dirty on every path after the replacement")
			}
		}
	}
	if n == 0 {
		c.S.Trivial(id, "none", "-", "no command replaces the keyspace dictionary")
	}
}

// ---------------------------------------------------------------- R-C19-decode-fresh

const textDecodeFresh = "R-C19-decode-fresh: gob does not transmit zero-valued fields and the decoder leaves such fields of its target untouched, so every Decode in the loader writes into a variable that is new for that record: the variable is declared (allocated) inside the loop that reads the records, not hoisted in front of it. With one header variable for all records the key with the empty name, an access time or a deadline of zero takes over the previous record's value"

func blockReaches(from, to *ssa.BasicBlock) bool {
	seen := map[*ssa.BasicBlock]bool{}
	var st []*ssa.BasicBlock
	st = append(st, from.Succs...)
	for len(st) > 0 {
		b := st[len(st)-1]
		st = st[:len(st)-1]
		if seen[b] {
			continue
		}
		seen[b] = true
		if b == to {
			return true
		}
		st = append(st, b.Succs...)
	}
	return false
}

func ruleC19DecodeFresh(c *Ctx) {
	const id = "R-C19-decode-fresh"
	c.S.Rule(id, textDecodeFresh, 1)
	pa := c.persist()
	if len(pa.errs) > 0 {
		c.S.Undecided(id, "anchors", "-", pa.errs[0])
		return
	}
	n := 0
	for _, fn := range c.helperClosure(pa.loader, 2) {
		k := 0
		for _, in := range instrsOf(fn) {
			call, ok := in.(*ssa.Call)
			if !ok || fullCalleeName(call) != "(*encoding/gob.Decoder).Decode" || len(call.Call.Args) < 2 {
				continue
			}
			k++
			n++
			key := fmt.Sprintf("%s:decode#%d", fnName(fn), k)
			pos := c.Pos(call.Pos())
			tgt := call.Call.Args[1]
			if mi, ok := tgt.(*ssa.MakeInterface); ok {
				tgt = mi.X
			}
			inLoop := blockReaches(call.Block(), call.Block())
			if !inLoop {
				c.S.OK(id, key, pos, "decoded once per call")
				continue
			}
			al, ok := tgt.(*ssa.Alloc)
			if !ok {
				c.S.Undecided(id, key, pos, "the target of a Decode inside a loop is not a local variable")
				continue
			}
			if al.Block() == call.Block() || blockReaches(call.Block(), al.Block()) {
				c.S.OK(id, key, pos, "the target is a new variable in every iteration")
				continue
			}
			// hoisted: accepted only when it is cleared inside the loop before the Decode
			cleared := false
			for _, r := range referrers(al) {
				if st, ok := r.(*ssa.Store); ok && st.Addr == ssa.Value(al) && blockReaches(call.Block(), st.Block()) && (st.Block() == call.Block() && instrIndex(st) < instrIndex(call) || st.Block() != call.Block() && st.Block().Dominates(call.Block())) {
					if _, isC := st.Val.(*ssa.Const); isC {
						cleared = true
					}
					if u, ok := st.Val.(*ssa.UnOp); ok {
						if a2, ok := u.X.(*ssa.Alloc); ok && len(referrers(a2)) == 1 {
							cleared = true // *p = T{}: a load of a zero-initialised temporary
						}
					}
				}
			}
			if cleared {
				c.S.OK(id, key, pos, "the target is cleared before every Decode")
			} else {
				c.S.Bad(id, key, pos, fmt.Sprintf("%s decodes every record of the loop into one variable declared in front of the loop: fields that are zero in a record keep the previous record's value", fnName(fn)))
			}
		}
	}
	if n == 0 {
		c.S.Undecided(id, "none", "-", "no Decode call in the loader")
	}
}

// ---------------------------------------------------------------- R-C19-discover-parse

const textDiscoverParse = "R-C19-discover-parse: at start-up the index of a snapshot file is the WHOLE rest of its name read as a number: the index handed to the function that creates the database to load into comes from strconv.ParseInt / ParseUint / Atoi (which refuse trailing text) applied to the name cut off behind the prefix by position (not by a cutset function such as strings.TrimLeft, which also strips digits that occur in the base name), and the parse error is tested. A prefix scanner (fmt.Sscanf \"%d\") reads `base.db0.tmp` — the temporary file an interrupted save leaves behind — as database 0 and loads the torn file over the good snapshot"

func ruleC19DiscoverParse(c *Ctx) {
	const id = "R-C19-discover-parse"
	c.S.Rule(id, textDiscoverParse, 1)
	pa := c.persist()
	if len(pa.errs) > 0 {
		c.S.Undecided(id, "anchors", "-", pa.errs[0])
		return
	}
	hs, _ := c.M.Handlers()
	reach := map[*ssa.Function]bool{}
	for _, h := range hs {
		for f := range c.M.Reach(h) {
			reach[f] = true
		}
	}
	var wholeParse func(v ssa.Value, depth int) (ok bool, errTested bool)
	wholeParse = func(v ssa.Value, depth int) (bool, bool) {
		if depth > 6 {
			return false, false
		}
		switch x := v.(type) {
		case *ssa.Convert:
			return wholeParse(x.X, depth+1)
		case *ssa.ChangeType:
			return wholeParse(x.X, depth+1)
		case *ssa.Extract:
			call, ok := x.Tuple.(*ssa.Call)
			if !ok || x.Index != 0 {
				return false, false
			}
			// a helper of the package that does the parsing and yields (index, ok): judged by its returns; the caller has
			// to look at ok
			if g := call.Call.StaticCallee(); g != nil && c.InPkg(g) && g.Signature.Results().Len() == 2 && depth < 3 {
				okAll, nRet := true, 0
				for _, gb := range g.Blocks {
					ret, isRet := gb.Instrs[len(gb.Instrs)-1].(*ssa.Return)
					if !isRet || len(ret.Results) != 2 {
						continue
					}
					nRet++
					if _, isC := ret.Results[0].(*ssa.Const); isC {
						continue // the failure return
					}
					if o, tst := wholeParse(ret.Results[0], depth+1); !o || !tst {
						okAll = false
					}
				}
				callerLooks := false
				for _, r := range referrers(call) {
					if e, ok := r.(*ssa.Extract); ok && e.Index == 1 {
						for _, r2 := range referrers(e) {
							switch y := r2.(type) {
							case *ssa.If:
								callerLooks = true
							case *ssa.UnOp:
								for _, r3 := range referrers(y) {
									if _, ok := r3.(*ssa.If); ok {
										callerLooks = true
									}
								}
							}
						}
					}
				}
				return okAll && nRet > 0, callerLooks
			}
			switch fullCalleeName(call) {
			case "strconv.ParseInt", "strconv.ParseUint", "strconv.Atoi":
			default:
				return false, false
			}
			// what is parsed is the name behind the prefix, cut off by position (or TrimPrefix): a cutset function
			// (Trim, TrimLeft, TrimRight) strips every leading character that occurs in the base name, digits included
			if len(call.Call.Args) > 0 {
				if ac, ok := call.Call.Args[0].(*ssa.Call); ok {
					switch fullCalleeName(ac) {
					case "strings.Trim", "strings.TrimLeft", "strings.TrimRight", "strings.TrimFunc", "strings.TrimLeftFunc", "strings.TrimRightFunc", "strings.Replace", "strings.ReplaceAll":
						return false, false
					}
				}
			}
			tested := false
			for _, r := range referrers(call) {
				if e, ok := r.(*ssa.Extract); ok && e.Index == 1 {
					for _, r2 := range referrers(e) {
						if bo, ok := r2.(*ssa.BinOp); ok && (bo.Op == token.EQL || bo.Op == token.NEQ) {
							for _, r3 := range referrers(bo) {
								if _, ok := r3.(*ssa.If); ok {
									tested = true
								}
							}
						}
					}
				}
			}
			return true, tested
		case *ssa.UnOp:
			if al, ok := x.X.(*ssa.Alloc); ok && x.Op == token.MUL {
				okAll, tAll, any := true, true, false
				for _, r := range referrers(al) {
					if st, ok := r.(*ssa.Store); ok && st.Addr == ssa.Value(al) {
						o, t := wholeParse(st.Val, depth+1)
						okAll, tAll, any = okAll && o, tAll && t, true
					}
				}
				return any && okAll, any && tAll
			}
		}
		return false, false
	}
	n := 0
	for _, fn := range c.SrcFuncs() {
		if reach[fn] {
			continue
		}
		// calls that load a snapshot
		loads := false
		for _, in := range instrsOf(fn) {
			if call, ok := in.(*ssa.Call); ok {
				for _, g := range c.Callees(call) {
					if c.InPkg(g) && (g == pa.loader || c.M.Reach(g)[pa.loader]) {
						loads = true
					}
				}
			}
		}
		if !loads {
			continue
		}
		k := 0
		for _, in := range instrsOf(fn) {
			call, ok := in.(*ssa.Call)
			if !ok {
				continue
			}
			g := call.Call.StaticCallee()
			if g == nil || !c.InPkg(g) || g.Signature.Results().Len() == 0 || !c.isPkgType(g.Signature.Results().At(0).Type(), "dataStore") {
				continue
			}
			var idx ssa.Value
			cnt := 0
			for i, a := range call.Call.Args {
				if i == 0 && g.Signature.Recv() != nil {
					continue
				}
				if b, ok := a.Type().Underlying().(*types.Basic); ok && b.Info()&types.IsInteger != 0 {
					idx = a
					cnt++
				}
			}
			if cnt != 1 {
				continue
			}
			k++
			n++
			key := fmt.Sprintf("%s:index-of-file#%d", fnName(fn), k)
			ok2, tested := wholeParse(idx, 0)
			switch {
			case !ok2:
				c.S.Bad(id, key, c.Pos(call.Pos()), fmt.Sprintf("%s takes the index of the database to load from something else than a whole-string strconv parse of the file name's rest: names with trailing text (the temporary file of an interrupted save) are loaded as snapshots", fnName(fn)))
			case !tested:
				c.S.Bad(id, key, c.Pos(call.Pos()), fmt.Sprintf("%s does not test the error of the parse that yields the database index", fnName(fn)))
			default:
				c.S.OK(id, key, c.Pos(call.Pos()), "index = strconv parse of the whole suffix, error tested")
			}
		}
	}
	if n == 0 {
		c.S.Undecided(id, "none", "-", "no start-up function that creates a database by index and loads a snapshot into it")
	}
}

// ---------------------------------------------------------------- R-stringer-identity

const textStringerIdentity = "R-stringer-identity: text is carried, not rewritten, where replies are put on the wire and where they are converted for a RESP2 connection: (a) a value of a text-carrying reply type (underlying string or []byte) that the serializer hands to a formatting call is rendered by that type's String method, so the method returns the receiver's own bytes — a conversion or a field, nothing formatted, replaced or trimmed (the length prefix is len() of the value, not of what String returns); (b) in the down-converter the scalar made from a text-carrying RESP3 value (verbatim string, blob error) is a conversion of the value, one of its fields, or such a projecting method — `respBulkString(v.String())` of a verbatim string sends the framing `txt:` to a RESP2 client as content"

// isProjectionFn: every result of g is the receiver/first parameter itself, converted, or one of its fields
func isProjectionFn(g *ssa.Function) bool {
	if g == nil || len(g.Blocks) == 0 || len(g.Params) == 0 || g.Signature.Results().Len() != 1 {
		return false
	}
	var proj func(v ssa.Value, d int) bool
	proj = func(v ssa.Value, d int) bool {
		if d > 6 {
			return false
		}
		switch x := v.(type) {
		case *ssa.Parameter:
			return x == g.Params[0]
		case *ssa.Convert:
			return proj(x.X, d+1)
		case *ssa.ChangeType:
			return proj(x.X, d+1)
		case *ssa.Field:
			return proj(x.X, d+1)
		case *ssa.FieldAddr:
			return proj(x.X, d+1)
		case *ssa.UnOp:
			if x.Op != token.MUL {
				return false
			}
			if al, ok := x.X.(*ssa.Alloc); ok {
				// a spilled receiver: the only store is the parameter
				cnt, good := 0, false
				for _, r := range referrers(al) {
					if st, ok := r.(*ssa.Store); ok && st.Addr == ssa.Value(al) {
						cnt++
						good = proj(st.Val, d+1)
					}
				}
				return cnt == 1 && good
			}
			return proj(x.X, d+1)
		case *ssa.Alloc:
			cnt, good := 0, false
			for _, r := range referrers(x) {
				if st, ok := r.(*ssa.Store); ok && st.Addr == ssa.Value(x) {
					cnt++
					good = proj(st.Val, d+1)
				}
			}
			return cnt == 1 && good
		case *ssa.Phi:
			for _, e := range x.Edges {
				if !proj(e, d+1) {
					return false
				}
			}
			return true
		}
		return false
	}
	n := 0
	for _, b := range g.Blocks {
		if ret, ok := b.Instrs[len(b.Instrs)-1].(*ssa.Return); ok {
			n++
			if len(ret.Results) != 1 || !proj(ret.Results[0], 0) {
				return false
			}
		}
	}
	return n > 0
}

func carriesText(t types.Type) bool {
	switch u := t.Underlying().(type) {
	case *types.Basic:
		return u.Kind() == types.String
	case *types.Slice:
		b, ok := u.Elem().Underlying().(*types.Basic)
		return ok && b.Kind() == types.Byte
	case *types.Struct:
		for i := 0; i < u.NumFields(); i++ {
			if b, ok := u.Field(i).Type().Underlying().(*types.Basic); ok && b.Kind() == types.String {
				return true
			}
		}
	}
	return false
}

func (c *Ctx) stringMethodOf(t types.Type) *ssa.Function {
	ms := c.SSA.MethodSets.MethodSet(t)
	for i := 0; i < ms.Len(); i++ {
		sel := ms.At(i)
		if sel.Obj().Name() == "String" {
			if f := c.SSA.MethodValue(sel); f != nil && f.Signature.Params().Len() == 0 && f.Signature.Results().Len() == 1 {
				return f
			}
		}
	}
	return nil
}

func ruleStringerIdentity(c *Ctx) {
	const id = "R-stringer-identity"
	c.S.Rule(id, textStringerIdentity, 1)
	n := 0
	// (a) operands of formatting calls in the serializer
	scope := map[*ssa.Function]bool{}
	var conv *ssa.Function
	for _, sw := range c.respDataSwitches() {
		if isSerializerFn(sw.fn) {
			scope[sw.fn] = true
			for f := range c.M.Reach(sw.fn) {
				if c.InPkg(f) {
					scope[f] = true
				}
			}
		}
		if sw.fn.Signature.Recv() == nil && sw.fn.Signature.Params().Len() == 1 && sw.fn.Signature.Results().Len() == 1 &&
			c.isPkgType(sw.fn.Signature.Results().At(0).Type(), "respValue") && c.isPkgType(sw.fn.Signature.Params().At(0).Type(), "respValue") {
			conv = sw.fn
		}
	}
	judged := map[*ssa.Function]bool{}
	for _, fn := range c.SrcFuncs() {
		if !scope[fn] {
			continue
		}
		for _, in := range instrsOf(fn) {
			mi, ok := in.(*ssa.MakeInterface)
			if !ok {
				continue
			}
			t := mi.X.Type()
			nt, isNamed := t.(*types.Named)
			if !isNamed || nt.Obj().Pkg() != c.Pkg.Types {
				continue
			}
			if _, isStruct := t.Underlying().(*types.Struct); isStruct || !carriesText(t) {
				continue
			}
			// handed to a formatting call: stored into the argument array of a call into fmt
			formatted := false
			for _, r := range referrers(mi) {
				if st, ok := r.(*ssa.Store); ok {
					if ia, ok := st.Addr.(*ssa.IndexAddr); ok {
						if al, ok := ia.X.(*ssa.Alloc); ok {
							for _, r2 := range referrers(al) {
								if sl, ok := r2.(*ssa.Slice); ok {
									for _, r3 := range referrers(sl) {
										if call, ok := r3.(ssa.CallInstruction); ok {
											if g := call.Common().StaticCallee(); g != nil && g.Pkg != nil && g.Pkg.Pkg.Path() == "fmt" {
												formatted = true
											}
										}
									}
								}
							}
						}
					}
				}
			}
			if !formatted {
				continue
			}
			sm := c.stringMethodOf(t)
			if sm == nil || judged[sm] {
				continue
			}
			judged[sm] = true
			n++
			key := "wire:" + fnName(sm)
			if isProjectionFn(sm) {
				c.S.OK(id, key, c.Pos(sm.Pos()), "String returns the receiver's own bytes")
			} else {
				c.S.Bad(id, key, c.Pos(sm.Pos()), fmt.Sprintf("%s formats values of this type with fmt, which calls %s — and that method does not return the receiver's bytes unchanged: the payload on the wire differs from the stored bytes and from the announced length", fnName(fn), fnName(sm)))
			}
		}
	}
	// (b) the down-converter
	if conv != nil {
		fData := c.Field("respValue", "data")
		k := 0
		for _, in := range instrsOf(conv) {
			ta, ok := in.(*ssa.TypeAssert)
			if !ok || !ta.CommaOk || !carriesText(ta.AssertedType) {
				continue
			}
			if _, f := loadedField(ta.X); f != fData {
				continue
			}
			// the value and the success block
			var val ssa.Value
			var okBlk *ssa.BasicBlock
			for _, r := range referrers(ta) {
				e, ok := r.(*ssa.Extract)
				if !ok {
					continue
				}
				if e.Index == 0 {
					val = e
				} else {
					for _, r2 := range referrers(e) {
						if ifi, ok := r2.(*ssa.If); ok {
							okBlk = ifi.Block().Succs[0]
						}
					}
				}
			}
			if val == nil || okBlk == nil {
				continue
			}
			for _, b := range conv.Blocks {
				if b != okBlk && !okBlk.Dominates(b) {
					continue
				}
				for _, in2 := range b.Instrs {
					st, ok := isStoreTo(in2, fData)
					if !ok {
						continue
					}
					mi, ok := st.Val.(*ssa.MakeInterface)
					if !ok || !carriesText(mi.X.Type()) {
						continue
					}
					if _, isStruct := mi.X.Type().Underlying().(*types.Struct); isStruct {
						continue
					}
					if mi.X == val {
						continue // passed through unchanged
					}
					k++
					n++
					key := fmt.Sprintf("%s:%s#%d", fnName(conv), typeString(ta.AssertedType), k)
					// strip conversions; then: the value, a field of it, or a projecting method of it
					x := mi.X
					for i := 0; i < 4; i++ {
						if cv, ok := x.(*ssa.Convert); ok {
							x = cv.X
						} else if ct, ok := x.(*ssa.ChangeType); ok {
							x = ct.X
						} else {
							break
						}
					}
					good, why := false, ""
					switch y := x.(type) {
					case *ssa.Field:
						good = y.X == val
					case *ssa.Extract:
						good = ssa.Value(y) == val
					case *ssa.Call:
						g := y.Call.StaticCallee()
						if g != nil && c.InPkg(g) && len(y.Call.Args) >= 1 && y.Call.Args[0] == val {
							good = isProjectionFn(g)
							why = fnName(g)
						}
					case *ssa.UnOp:
						if fa, ok := y.X.(*ssa.FieldAddr); ok {
							if al, ok := fa.X.(*ssa.Alloc); ok {
								for _, r := range referrers(al) {
									if s2, ok := r.(*ssa.Store); ok && s2.Addr == ssa.Value(al) && s2.Val == val {
										good = true
									}
								}
							}
						}
					}
					if good {
						c.S.OK(id, key, c.Pos(st.Pos()), "the RESP2 scalar is the value's own text")
					} else {
						if why != "" {
							why = " (" + why + " builds a new text)"
						}
						c.S.Bad(id, key, c.Pos(st.Pos()), fmt.Sprintf("%s converts a %s into a RESP2 scalar whose content is not the value's own text%s: framing or formatting reaches the client as data", fnName(conv), typeString(ta.AssertedType), why))
					}
				}
			}
		}
	}
	if n == 0 {
		c.S.Undecided(id, "none", "-", "neither a formatted text operand in the serializer nor a text case in the down-converter found")
	}
}

// ---------------------------------------------------------------- R-C15-unconverted-safe

const textUnconvertedSafe = "R-C15-unconverted-safe: replies that do not pass the down-converter are RESP2 kinds: in the dispatcher functions around the handler call (the functions that lead to it, and the reply-producing functions they call before it: argument parsing, queueing) every reply built in place is a simple string, an error string, an integer, a bulk string, an array or nil. An `!`-blob error for an unknown command with line breaks in its arguments is sent to a RESP2 client as it is, because only handler results are converted"

func ruleC15UnconvertedSafe(c *Ctx) {
	const id = "R-C15-unconverted-safe"
	c.S.Rule(id, textUnconvertedSafe, 1)
	t := c.txn()
	fData := c.Field("respValue", "data")
	if t.dispatchHandler == nil || fData == nil {
		c.S.Undecided(id, "anchors", "-", "dispatchHandler / respValue.data not found")
		return
	}
	// the dispatcher chain: dispatchHandler and its transitive callers inside the package
	chain := map[*ssa.Function]bool{t.dispatchHandler: true}
	work := []*ssa.Function{t.dispatchHandler}
	for len(work) > 0 {
		f := work[len(work)-1]
		work = work[:len(work)-1]
		if node := c.CG.Nodes[f]; node != nil {
			for _, e := range node.In {
				g := e.Caller.Func
				if g != nil && c.InPkg(g) && !chain[g] && g.Signature.Results().Len() >= 1 && returnsResp(c, g) {
					chain[g] = true
					work = append(work, g)
				}
			}
		}
	}
	scope := map[*ssa.Function]bool{}
	for f := range chain {
		scope[f] = true
		for _, in := range instrsOf(f) {
			if call, ok := in.(*ssa.Call); ok {
				if g := call.Call.StaticCallee(); g != nil && c.InPkg(g) && !chain[g] && returnsResp(c, g) && g != t.dispatchHandler {
					// a reply-producing helper of the chain — not the handlers (dynamic) and not the converter
					isConv := g.Signature.Params().Len() == 1 && c.isPkgType(g.Signature.Params().At(0).Type(), "respValue")
					if !isConv && g.Signature.Recv() != nil {
						scope[g] = true
					}
				}
			}
		}
	}
	safe := []string{"respSimpleString", "respErrorString", "respInt", "respBulkString", "respArray"}
	respTypes := map[string]bool{}
	for _, sw := range c.respDataSwitches() {
		for t := range sw.types {
			respTypes[t] = true
		}
	}
	n := 0
	var fns []*ssa.Function
	for f := range scope {
		fns = append(fns, f)
	}
	sortFns(fns)
	for _, fn := range fns {
		k := 0
		for _, in := range instrsOf(fn) {
			mi, ok := in.(*ssa.MakeInterface)
			if !ok || !respTypes[typeString(mi.X.Type())] || !isReplyValue(mi, fData) {
				continue
			}
			st := mi
			k++
			n++
			key := fmt.Sprintf("%s:reply#%d", fnName(fn), k)
			good := false
			for _, s := range safe {
				if c.isPkgType(mi.X.Type(), s) {
					good = true
				}
			}
			if good {
				c.S.OK(id, key, c.Pos(st.Pos()), "a RESP2 kind")
			} else {
				c.S.Bad(id, key, c.Pos(st.Pos()), fmt.Sprintf("%s builds a reply of type %s that is sent without down-conversion: a RESP2 connection receives a RESP3-only type", fnName(fn), typeString(mi.X.Type())))
			}
		}
	}
	if n == 0 {
		c.S.Undecided(id, "none", "-", "no reply built in the dispatcher functions")
	}
}

func returnsResp(c *Ctx, g *ssa.Function) bool {
	var dataT types.Type
	if f := c.Field("respValue", "data"); f != nil {
		dataT = f.Type()
	}
	for i := 0; i < g.Signature.Results().Len(); i++ {
		t := g.Signature.Results().At(i).Type()
		if c.isPkgType(t, "respValue") || (dataT != nil && types.Identical(t, dataT)) {
			return true
		}
	}
	return false
}

// isReplyValue: the boxed value is stored into a reply's data field or returned (directly, through a merge, or
// through the cell of a named result)
func isReplyValue(mi *ssa.MakeInterface, fData *types.Var) bool {
	seen := map[ssa.Value]bool{}
	var rec func(v ssa.Value, d int) bool
	rec = func(v ssa.Value, d int) bool {
		if seen[v] || d > 5 {
			return false
		}
		seen[v] = true
		for _, r := range referrers(v) {
			switch x := r.(type) {
			case *ssa.Return:
				return true
			case *ssa.Phi:
				if rec(x, d+1) {
					return true
				}
			case *ssa.Store:
				if x.Val != v {
					continue
				}
				if fa, ok := x.Addr.(*ssa.FieldAddr); ok && fieldOf(fa) == fData {
					return true
				}
				if al, ok := x.Addr.(*ssa.Alloc); ok {
					for _, r2 := range referrers(al) {
						if u, ok := r2.(*ssa.UnOp); ok && u.Op == token.MUL && rec(u, d+1) {
							return true
						}
					}
				}
			}
		}
		return false
	}
	return rec(mi, 0)
}

func sortFns(fns []*ssa.Function) {
	for i := 1; i < len(fns); i++ {
		for j := i; j > 0 && fnName(fns[j]) < fnName(fns[j-1]); j-- {
			fns[j], fns[j-1] = fns[j-1], fns[j]
		}
	}
}

// ---------------------------------------------------------------- R-C15-hello-stored

const textHelloStored = "R-C15-hello-stored: a protocol version that HELLO accepts is stored: in the function that stores a request-supplied number into the connection's protocol version, every path on which the number was compared with 2 or 3 and found equal reaches that store (or an error reply; `return false` in a validating helper) before the function returns. `switch ver { case 2: case 3: store }` accepts HELLO 2 and leaves a RESP3 connection in RESP3"

func ruleC15HelloStored(c *Ctx) {
	const id = "R-C15-hello-stored"
	c.S.Rule(id, textHelloStored, 1)
	fVer := c.Field("clientState", "respVersion")
	if fVer == nil {
		c.S.Undecided(id, "anchor", "-", "clientState.respVersion not found")
		return
	}
	n := 0
	for _, fn := range c.SrcFuncs() {
		k := 0
		for _, in := range instrsOf(fn) {
			st, ok := isStoreTo(in, fVer)
			if !ok {
				continue
			}
			if _, isC := constInt(st.Val); isC {
				continue
			}
			// root of the stored value
			v := st.Val
			for i := 0; i < 6; i++ {
				if cv, ok := v.(*ssa.Convert); ok {
					v = cv.X
				} else if ct, ok := v.(*ssa.ChangeType); ok {
					v = ct.X
				} else {
					break
				}
			}
			strip := func(x ssa.Value) ssa.Value {
				for i := 0; i < 6; i++ {
					if cv, ok := x.(*ssa.Convert); ok {
						x = cv.X
					} else if ct, ok := x.(*ssa.ChangeType); ok {
						x = ct.X
					} else {
						break
					}
				}
				return x
			}
			k++
			n++
			key := fmt.Sprintf("%s:accepted-is-stored#%d", fnName(fn), k)
			boolFn := false
			if fn.Signature.Results().Len() == 1 {
				if bt, ok := fn.Signature.Results().At(0).Type().Underlying().(*types.Basic); ok && bt.Kind() == types.Bool {
					boolFn = true
				}
			}
			narrowed := ""
			// does the edge b→succ[si] mean "the version equals 2 (or 3)"?
			acceptEdge := func(b *ssa.BasicBlock, si int) bool {
				ifi, ok := b.Instrs[len(b.Instrs)-1].(*ssa.If)
				if !ok {
					return false
				}
				bo, ok := ifi.Cond.(*ssa.BinOp)
				if !ok || (bo.Op != token.EQL && bo.Op != token.NEQ) {
					return false
				}
				x, y := bo.X, bo.Y
				if _, isC := constInt(x); isC {
					x, y = y, x
				}
				kc, isC := constInt(y)
				if !isC || (kc != 2 && kc != 3) || strip(x) != v {
					return false
				}
				// compared after it was cut down to fewer bits: 4294967299 is then 3
				for w := x; ; {
					cv, ok := w.(*ssa.Convert)
					if !ok {
						break
					}
					if c.Pkg.TypesSizes != nil && c.Pkg.TypesSizes.Sizeof(cv.Type()) < c.Pkg.TypesSizes.Sizeof(cv.X.Type()) {
						narrowed = c.Pos(cv.Pos())
					}
					w = cv.X
				}
				return (bo.Op == token.EQL) == (si == 0)
			}
			bad := ""
			type wkey struct {
				b   *ssa.BasicBlock
				acc bool
			}
			seen := map[wkey]bool{}
			var walk func(b *ssa.BasicBlock, acc bool)
			walk = func(b *ssa.BasicBlock, acc bool) {
				if seen[wkey{b, acc}] {
					return
				}
				seen[wkey{b, acc}] = true
				for _, in2 := range b.Instrs {
					if _, ok := isStoreTo(in2, fVer); ok {
						return
					}
					if c.isErrorReplyStore(in2) {
						return
					}
					if ret, ok := in2.(*ssa.Return); ok {
						if boolFn && len(ret.Results) == 1 && !mayBeTrueAt(ret.Results[0], b) {
							return
						}
						if acc {
							bad = c.Pos(c.InstrPos(ret))
						}
						return
					}
				}
				for si, s := range b.Succs {
					walk(s, acc || acceptEdge(b, si))
				}
			}
			walk(fn.Blocks[0], false)
			if narrowed != "" {
				c.S.Bad(id, key+":unnarrowed", c.Pos(st.Pos()), fmt.Sprintf("%s compares the protocol version with 2 and 3 after converting it to a narrower integer type (at %s): HELLO 4294967299 is accepted as 3", fnName(fn), narrowed))
			} else {
				c.S.OK(id, key+":unnarrowed", c.Pos(st.Pos()), "the number is compared as the client sent it")
			}
			if bad != "" {
				c.S.Bad(id, key, c.Pos(st.Pos()), fmt.Sprintf("%s can return (at %s) with the request's protocol version neither stored nor refused: a HELLO that is answered as accepted leaves the connection in its old protocol", fnName(fn), bad))
			} else {
				c.S.OK(id, key, c.Pos(st.Pos()), "every path with a version at hand stores it or refuses")
			}
		}
	}
	if n == 0 {
		c.S.Undecided(id, "stores", "-", "no store of a request-supplied value to clientState.respVersion")
	}
}

// ---------------------------------------------------------------- R-token-fresh

const textTokenFresh = "R-token-fresh: the re-entrant database lock recognises its owner by the id of the command object, and the exclusive hold of EXEC leaves that id in the lock word when it ends; the protocol is sound only because no two commands share an id: the command object bound to a command's context is created for that command — the value stored into the context is the result of a constructor call (a function all of whose returns are new objects), never an object kept in a field of the connection. A cached object lets every command after the connection's first EXEC pass the lock test without taking the mutex"

func ruleTokenFresh(c *Ctx) {
	const id = "R-token-fresh"
	c.S.Rule(id, textTokenFresh, 1)
	fCtxDsc := c.Field("cmdContext", "dsc")
	if fCtxDsc == nil {
		c.S.Undecided(id, "anchor", "-", "cmdContext.dsc not found")
		return
	}
	var fresh func(v ssa.Value, depth int, seen map[ssa.Value]bool) bool
	fresh = func(v ssa.Value, depth int, seen map[ssa.Value]bool) bool {
		if depth > 5 || seen[v] {
			return false
		}
		seen[v] = true
		switch x := v.(type) {
		case *ssa.Alloc:
			return true
		case *ssa.Call:
			g := x.Call.StaticCallee()
			return g != nil && returnsFreshAt(c, g, 0, fresh, depth+1, seen)
		case *ssa.Phi:
			for _, e := range x.Edges {
				if !fresh(e, depth+1, seen) {
					return false
				}
			}
			return true
		case *ssa.UnOp:
			if al, ok := x.X.(*ssa.Alloc); ok && x.Op == token.MUL {
				any := false
				for _, r := range referrers(al) {
					if st, ok := r.(*ssa.Store); ok && st.Addr == ssa.Value(al) {
						any = true
						if !fresh(st.Val, depth+1, seen) {
							return false
						}
					}
				}
				return any
			}
		}
		return false
	}
	n := 0
	for _, fn := range c.SrcFuncs() {
		k := 0
		for _, in := range instrsOf(fn) {
			st, ok := isStoreTo(in, fCtxDsc)
			if !ok {
				continue
			}
			k++
			n++
			key := fmt.Sprintf("%s:bind#%d", fnName(fn), k)
			if fresh(st.Val, 0, map[ssa.Value]bool{}) {
				c.S.OK(id, key, c.Pos(st.Pos()), "a command object created for this command")
			} else if p, isP := st.Val.(*ssa.Parameter); isP {
				// handed in: every caller must pass a new one
				all, any := true, false
				if node := c.CG.Nodes[fn]; node != nil {
					for _, e := range node.In {
						idx := -1
						for i, q := range fn.Params {
							if q == p {
								idx = i
							}
						}
						if idx < 0 || idx >= len(e.Site.Common().Args) {
							all = false
							continue
						}
						any = true
						if !fresh(e.Site.Common().Args[idx], 0, map[ssa.Value]bool{}) {
							all = false
						}
					}
				}
				if all && any {
					c.S.OK(id, key, c.Pos(st.Pos()), "every caller passes a command object created for this command")
				} else {
					c.S.Bad(id, key, c.Pos(st.Pos()), fmt.Sprintf("%s binds a command object that a caller does not create for this command", fnName(fn)))
				}
			} else {
				c.S.Bad(id, key, c.Pos(st.Pos()), fmt.Sprintf("%s binds a command object that is not created for this command (kept between commands): its id stays in the lock word after an EXEC, and later commands of the connection run without the database mutex", fnName(fn)))
			}
		}
	}
	if n == 0 {
		c.S.Undecided(id, "none", "-", "no store to cmdContext.dsc")
	}
}

// ---------------------------------------------------------------- R-shared-lock-readonly

const textSharedLockRO = "R-shared-lock-readonly: a reader/writer mutex taken in shared mode (RLock) admits several holders at once, so nothing that runs under it changes database state: a function that takes a shared lock (itself, or through a wrapper that returns holding it) reaches no mutation site — no dictionary store/removal, no payload, deadline or version write. GETDEL under the shared lock because its name starts with `get` hands one value to several clients and removes from the dictionary concurrently"

func ruleSharedLockReadonly(c *Ctx) {
	const id = "R-shared-lock-readonly"
	c.S.Rule(id, textSharedLockRO, 0)
	mm := c.M.Muts()
	if len(mm.errs) > 0 {
		c.S.Undecided(id, "anchors", "-", mm.errs[0])
		return
	}
	holders := map[*ssa.Function]string{}
	for _, fn := range c.SrcFuncs() {
		takes, releases := false, false
		for _, in := range instrsOf(fn) {
			if ci, ok := in.(ssa.CallInstruction); ok {
				switch fullCalleeName(ci) {
				case "(*sync.RWMutex).RLock":
					takes = true
				case "(*sync.RWMutex).RUnlock":
					releases = true
				}
			}
		}
		if !takes {
			continue
		}
		if releases {
			holders[fn] = "takes and releases the shared lock"
			continue
		}
		// a wrapper that returns holding the lock: its callers hold it
		if node := c.CG.Nodes[fn]; node != nil {
			for _, e := range node.In {
				if g := e.Caller.Func; g != nil && c.InPkg(g) {
					holders[g] = "takes the shared lock through " + fnName(fn)
				}
			}
		}
	}
	var hs []*ssa.Function
	for h := range holders {
		hs = append(hs, h)
	}
	sortFns(hs)
	for _, h := range hs {
		key := fnName(h) + ":shared-section"
		bad := ""
		var fs []*ssa.Function
		for f := range c.M.Reach(h) {
			fs = append(fs, f)
		}
		sortFns(fs)
		for _, f := range fs {
			if len(mm.sites[f]) > 0 && bad == "" {
				bad = fmt.Sprintf("%s (%s at %s)", fnName(f), mm.sites[f][0].Kind, c.Pos(c.InstrPos(mm.sites[f][0].In)))
			}
		}
		if bad != "" {
			c.S.Bad(id, key, c.Pos(h.Pos()), fmt.Sprintf("%s %s and reaches a mutation of database state in %s: several holders of the shared lock run it at the same time", fnName(h), holders[h], bad))
		} else {
			c.S.OK(id, key, c.Pos(h.Pos()), "reaches no mutation site")
		}
	}
	if len(hs) == 0 {
		c.S.Trivial(id, "none", "-", "no reader/writer mutex is taken in shared mode")
	}
}

// ---------------------------------------------------------------- R-guarded-backing-escape

const textBackingEscape = "R-guarded-backing-escape: a function that opens and closes the database's critical section itself does not hand its caller a slice or map that shares storage with a container field of the database (a result buffer kept in the database and recycled: `vals = ds.buf[:0] … return vals`): the caller reads it after the unlock, while the next command — of another connection — is already overwriting it; a client receives values of keys it never asked for"

func ruleGuardedBackingEscape(c *Ctx) {
	const id = "R-guarded-backing-escape"
	c.S.Rule(id, textBackingEscape, 1)
	lm := c.M.Locks()
	nt := c.NamedType("dataStore")
	if nt == nil {
		c.S.Undecided(id, "anchors", "-", "dataStore not found")
		return
	}
	cont := map[*types.Var]bool{}
	if st, ok := nt.Underlying().(*types.Struct); ok {
		for i := 0; i < st.NumFields(); i++ {
			switch st.Field(i).Type().Underlying().(type) {
			case *types.Slice, *types.Map:
				cont[st.Field(i)] = true
			}
		}
	}
	n := 0
	for _, fn := range c.SrcFuncs() {
		if fn.Signature.Results().Len() == 0 {
			continue
		}
		returnsContainer := false
		for i := 0; i < fn.Signature.Results().Len(); i++ {
			switch fn.Signature.Results().At(i).Type().Underlying().(type) {
			case *types.Slice, *types.Map:
				returnsContainer = true
			}
		}
		if !returnsContainer {
			continue
		}
		opens := false
		for _, in := range instrsOf(fn) {
			if lm.LocallyHeld(in) != 0 {
				opens = true
				break
			}
		}
		if !opens {
			continue
		}
		n++
		key := fnName(fn) + ":results"
		derived := map[ssa.Value]bool{}
		for _, in := range instrsOf(fn) {
			if u, ok := in.(*ssa.UnOp); ok && u.Op == token.MUL {
				if fa, ok := u.X.(*ssa.FieldAddr); ok && cont[fieldOf(fa)] {
					derived[u] = true
				}
			}
		}
		for changed := true; changed && len(derived) > 0; {
			changed = false
			for _, in2 := range instrsOf(fn) {
				v, ok := in2.(ssa.Value)
				if !ok || derived[v] {
					continue
				}
				d := false
				switch x := in2.(type) {
				case *ssa.UnOp:
					if al, isAl := x.X.(*ssa.Alloc); isAl && x.Op == token.MUL {
						for _, r := range referrers(al) {
							if st, ok := r.(*ssa.Store); ok && st.Addr == ssa.Value(al) && derived[st.Val] {
								d = true
							}
						}
					}
				case *ssa.Slice:
					d = derived[x.X]
				case *ssa.Phi:
					for _, e := range x.Edges {
						d = d || derived[e]
					}
				case *ssa.ChangeType:
					d = derived[x.X]
				case *ssa.Call:
					if b, isB := x.Call.Value.(*ssa.Builtin); isB && b.Name() == "append" && len(x.Call.Args) > 0 {
						d = derived[x.Call.Args[0]]
					}
				}
				if d {
					derived[v] = true
					changed = true
				}
			}
		}
		esc := ""
		for _, b := range fn.Blocks {
			if ret, ok := b.Instrs[len(b.Instrs)-1].(*ssa.Return); ok {
				for _, r := range ret.Results {
					if derived[r] {
						esc = c.Pos(c.InstrPos(ret))
					}
				}
			}
		}
		if esc != "" {
			c.S.Bad(id, key, c.Pos(fn.Pos()), fmt.Sprintf("%s returns (at %s) a container that shares storage with a field of the database and releases the database lock before its caller reads it", fnName(fn), esc))
		} else {
			c.S.OK(id, key, c.Pos(fn.Pos()), "the returned containers do not share storage with a field of the database")
		}
	}
	if n == 0 {
		c.S.Trivial(id, "none", "-", "no function that opens a critical section returns a slice or map")
	}
}

// ---------------------------------------------------------------- R-type-before-reply

const textTypeBeforeReply = "R-type-before-reply: a command that needs a value of a given type asks for it before it answers anything about an existing key: in a store method that looks a key up and calls a typed accessor on it, every path from the lookup on which the key exists reaches that accessor (or the type-flag test) before the function returns. `if !exists || count == 0 { return empty }` in front of the accessor answers `[]` for HRANDFIELD key 0 on a list, where Redis answers WRONGTYPE"

func ruleTypeBeforeReply(c *Ctx) {
	const id = "R-type-before-reply"
	c.S.Rule(id, textTypeBeforeReply, 1)
	accessor := map[*ssa.Function]bool{}
	for _, fn := range c.SrcFuncs() {
		if fn.Signature.Recv() == nil || !c.isPkgType(fn.Signature.Recv().Type(), "storeKey") || fn.Signature.Results().Len() != 1 || fn.Signature.Params().Len() != 0 {
			continue
		}
		switch fn.Signature.Results().At(0).Type().Underlying().(type) {
		case *types.Pointer, *types.Slice:
		default:
			continue
		}
		for _, b := range fn.Blocks {
			if ret, ok := b.Instrs[len(b.Instrs)-1].(*ssa.Return); ok && isNilConst(ret.Results[0]) {
				accessor[fn] = true
			}
		}
	}
	fFlags := c.Field("storeKey", "flags")
	if len(accessor) < 2 {
		c.S.Undecided(id, "accessors", "-", "typed accessors of the key object not found")
		return
	}
	scope := map[*ssa.Function]bool{}
	if hs, err := c.M.Handlers(); err == nil {
		for _, fam := range []string{"string", "list", "hash", "set"} {
			for _, tok := range familyTokens[fam] {
				if h := hs[tok]; h != nil {
					for f := range c.M.Reach(h) {
						scope[f] = true
					}
				}
			}
		}
	}
	n := 0
	for _, fn := range c.SrcFuncs() {
		if !scope[fn] || accessor[fn] {
			continue
		}
		k := 0
		for _, in := range instrsOf(fn) {
			lk, ok := in.(*ssa.Call)
			if !ok {
				continue
			}
			g := lk.Call.StaticCallee()
			if g == nil || !c.InPkg(g) || g.Signature.Results().Len() != 2 || !c.isPkgType(g.Signature.Results().At(0).Type(), "storeKey") {
				continue
			}
			if bt, ok := g.Signature.Results().At(1).Type().Underlying().(*types.Basic); !ok || bt.Kind() != types.Bool {
				continue
			}
			var sk, exists ssa.Value
			for _, r := range referrers(lk) {
				if e, ok := r.(*ssa.Extract); ok {
					if e.Index == 0 {
						sk = e
					} else {
						exists = e
					}
				}
			}
			if sk == nil {
				continue
			}
			// the key object may live in a cell (captured or reassigned): its loads count as the object
			isSk := func(v ssa.Value) bool {
				if v == sk {
					return true
				}
				if u, ok := v.(*ssa.UnOp); ok && u.Op == token.MUL {
					if al, ok := u.X.(*ssa.Alloc); ok {
						for _, r := range referrers(al) {
							if st, ok := r.(*ssa.Store); ok && st.Addr == ssa.Value(al) && st.Val == sk {
								return true
							}
						}
					}
				}
				return false
			}
			asks := func(in2 ssa.Instruction) bool {
				if call, ok := in2.(ssa.CallInstruction); ok {
					if h := call.Common().StaticCallee(); h != nil && len(call.Common().Args) > 0 && isSk(call.Common().Args[0]) {
						if accessor[h] {
							return true
						}
						// a helper of the key object that reads the type flag
						if c.InPkg(h) {
							for _, in3 := range instrsOf(h) {
								if _, f := loadedField(valueOf(in3)); f == fFlags && fFlags != nil {
									return true
								}
							}
						}
					}
				}
				if u, ok := in2.(*ssa.UnOp); ok && u.Op == token.MUL {
					if fa, ok := u.X.(*ssa.FieldAddr); ok && fieldOf(fa) == fFlags && isSk(fa.X) {
						return true
					}
				}
				return false
			}
			has := false
			for _, in2 := range instrsOf(fn) {
				if asks(in2) {
					has = true
				}
			}
			if !has {
				continue
			}
			k++
			n++
			key := fmt.Sprintf("%s:lookup#%d", fnName(fn), k)
			// is the edge b→s the "key is missing" side of a test of `exists` (or of the object against nil)?
			missingEdge := func(b *ssa.BasicBlock, si int) bool {
				ifi, ok := b.Instrs[len(b.Instrs)-1].(*ssa.If)
				if !ok {
					return false
				}
				cond, neg := ifi.Cond, false
				for {
					u, ok := cond.(*ssa.UnOp)
					if !ok || u.Op != token.NOT {
						break
					}
					cond, neg = u.X, !neg
				}
				if exists != nil && (cond == exists || resolveLocal(cond) == exists) {
					// true edge (0) = exists, unless negated
					return (si == 1) != neg
				}
				if bo, ok := cond.(*ssa.BinOp); ok && (bo.Op == token.EQL || bo.Op == token.NEQ) {
					if (isSk(bo.X) && isNilConst(bo.Y)) || (isSk(bo.Y) && isNilConst(bo.X)) {
						nilOnTrue := bo.Op == token.EQL
						return ((si == 0) == nilOnTrue) != neg
					}
				}
				return false
			}
			bad := ""
			seen := map[*ssa.BasicBlock]bool{}
			var walk func(b *ssa.BasicBlock, start int)
			walk = func(b *ssa.BasicBlock, start int) {
				for _, in2 := range b.Instrs[start:] {
					if asks(in2) {
						return
					}
					if ret, ok := in2.(*ssa.Return); ok {
						bad = c.Pos(c.InstrPos(ret))
						return
					}
					if _, ok := in2.(*ssa.Panic); ok {
						return
					}
				}
				for si, s := range b.Succs {
					if missingEdge(b, si) || seen[s] {
						continue
					}
					seen[s] = true
					walk(s, 0)
				}
			}
			walk(lk.Block(), instrIndex(lk)+1)
			if bad != "" {
				c.S.Bad(id, key, c.Pos(lk.Pos()), fmt.Sprintf("%s can return (at %s) for an existing key without having asked for its type: a key of another type gets the answer meant for a missing or empty one instead of WRONGTYPE", fnName(fn), bad))
			} else {
				c.S.OK(id, key, c.Pos(lk.Pos()), "every path with an existing key reaches the typed accessor")
			}
		}
	}
	if n == 0 {
		c.S.Undecided(id, "none", "-", "no store method that looks a key up and asks for a typed value")
	}
}

// ---------------------------------------------------------------- R-loop-element-fresh

const textLoopElementFresh = "R-loop-element-fresh: what a loop adds to its result for one item belongs to that item: the value appended in a loop body is not a variable that lives across iterations and is assigned only on some paths of the body (in SSA form: a merge that can still hold the value merged at the loop head). `var val *string` hoisted in front of the loop and set only when the field exists makes HMGET answer the previous field's value for a missing field"

// phiCarries: following merge edges from p leads back to p (the value can survive an iteration unchanged)
func phiCarries(p *ssa.Phi) bool {
	seen := map[*ssa.Phi]bool{}
	var rec func(q *ssa.Phi) bool
	rec = func(q *ssa.Phi) bool {
		for _, e := range q.Edges {
			r, ok := e.(*ssa.Phi)
			if !ok {
				continue
			}
			if r == p {
				return true
			}
			if !seen[r] {
				seen[r] = true
				if rec(r) {
					return true
				}
			}
		}
		return false
	}
	return rec(p)
}

func ruleLoopElementFresh(c *Ctx) {
	const id = "R-loop-element-fresh"
	c.S.Rule(id, textLoopElementFresh, 1)
	hs, err := c.M.Handlers()
	if err != nil {
		c.S.Undecided(id, "anchors", "-", "handlers not found")
		return
	}
	reach := map[*ssa.Function]bool{}
	for _, h := range hs {
		for f := range c.M.Reach(h) {
			reach[f] = true
		}
	}
	n := 0
	for _, fn := range c.SrcFuncs() {
		if !reach[enclosing(fn)] {
			continue
		}
		k := 0
		for _, in := range instrsOf(fn) {
			call, ok := in.(*ssa.Call)
			if !ok {
				continue
			}
			b, isB := call.Call.Value.(*ssa.Builtin)
			if !isB || b.Name() != "append" || len(call.Call.Args) != 2 || !blockReaches(call.Block(), call.Block()) {
				continue
			}
			// the appended elements: stores into the variadic array
			sl, ok := call.Call.Args[1].(*ssa.Slice)
			if !ok {
				continue
			}
			al, ok := sl.X.(*ssa.Alloc)
			if !ok {
				continue
			}
			for _, r := range referrers(al) {
				ia, ok := r.(*ssa.IndexAddr)
				if !ok {
					continue
				}
				for _, r2 := range referrers(ia) {
					st, ok := r2.(*ssa.Store)
					if !ok {
						continue
					}
					v := st.Val
					if mi, ok := v.(*ssa.MakeInterface); ok {
						v = mi.X
					}
					k++
					n++
					key := fmt.Sprintf("%s:appended#%d", fnName(fn), k)
					p, isPhi := v.(*ssa.Phi)
					if isPhi && phiCarries(p) && !isAccumulator(p) && !appendIsConditional(p, call.Block()) {
						c.S.Bad(id, key, c.Pos(call.Pos()), fmt.Sprintf("%s appends, per iteration, a variable that keeps its value from the previous iteration on some path of the loop body: an item without a value of its own gets the previous item's", fnName(fn)))
					} else {
						c.S.OK(id, key, c.Pos(call.Pos()), "the appended value is computed in the iteration")
					}
				}
			}
		}
	}
	if n == 0 {
		c.S.Trivial(id, "none", "-", "no append inside a loop reachable from a handler")
	}
}

// isAccumulator: every non-merge value that flows into the merge is computed from the merge itself (count+1,
// append(acc, …)) or is the initial constant: a running total, not a per-item value
func isAccumulator(p *ssa.Phi) bool {
	seen := map[*ssa.Phi]bool{p: true}
	group := []*ssa.Phi{p}
	for i := 0; i < len(group); i++ {
		for _, e := range group[i].Edges {
			if q, ok := e.(*ssa.Phi); ok && !seen[q] {
				seen[q] = true
				group = append(group, q)
			}
		}
	}
	inGroup := func(v ssa.Value) bool {
		q, ok := v.(*ssa.Phi)
		return ok && seen[q]
	}
	derived := false
	for _, q := range group {
		for _, e := range q.Edges {
			if inGroup(e) {
				continue
			}
			if _, isC := e.(*ssa.Const); isC {
				continue
			}
			switch x := e.(type) {
			case *ssa.BinOp:
				if inGroup(x.X) || inGroup(x.Y) {
					derived = true
					continue
				}
			case *ssa.Call:
				if len(x.Call.Args) > 0 && inGroup(x.Call.Args[0]) {
					derived = true
					continue
				}
			}
			return false
		}
	}
	return derived
}

// ---------------------------------------------------------------- R-payload-distinct-backing

const textPayloadDistinct = "R-payload-distinct-backing: two keys never share the storage of their values: a byte slice stored as a key's payload inside a loop over keys is allocated in that iteration — it is not a slice of a buffer that was made in front of the loop (or grows across iterations). APPEND extends a value in place when its capacity allows, so with one backing array for all values of an MSET the bytes appended to one key overwrite the next key's value"

func rulePayloadDistinctBacking(c *Ctx) {
	const id = "R-payload-distinct-backing"
	c.S.Rule(id, textPayloadDistinct, 1)
	fPayload := c.Field("storeKey", "payload")
	if fPayload == nil {
		c.S.Undecided(id, "anchors", "-", "storeKey.payload not found")
		return
	}
	n := 0
	for _, fn := range c.SrcFuncs() {
		k := 0
		for _, in := range instrsOf(fn) {
			st, ok := isStoreTo(in, fPayload)
			if !ok || !blockReaches(st.Block(), st.Block()) {
				continue
			}
			v := st.Val
			if mi, ok := v.(*ssa.MakeInterface); ok {
				v = mi.X
			}
			if _, isSl := v.Type().Underlying().(*types.Slice); !isSl {
				continue
			}
			k++
			n++
			key := fmt.Sprintf("%s:payload-in-loop#%d", fnName(fn), k)
			// allocation sites the slice can come from
			var allocs []ssa.Instruction
			unknown := false
			seen := map[ssa.Value]bool{}
			var rec func(x ssa.Value, d int)
			rec = func(x ssa.Value, d int) {
				if x == nil || seen[x] || d > 8 {
					return
				}
				seen[x] = true
				switch y := x.(type) {
				case *ssa.Slice:
					rec(y.X, d+1)
				case *ssa.Phi:
					for _, e := range y.Edges {
						rec(e, d+1)
					}
				case *ssa.MakeSlice:
					allocs = append(allocs, y)
				case *ssa.Convert:
					allocs = append(allocs, y)
				case *ssa.Alloc:
					allocs = append(allocs, y)
				case *ssa.Call:
					if b, isB := y.Call.Value.(*ssa.Builtin); isB && b.Name() == "append" && len(y.Call.Args) > 0 {
						rec(y.Call.Args[0], d+1)
						return
					}
					allocs = append(allocs, y)
				case *ssa.UnOp:
					if al, ok := y.X.(*ssa.Alloc); ok && y.Op == token.MUL {
						for _, r := range referrers(al) {
							if s2, ok := r.(*ssa.Store); ok && s2.Addr == ssa.Value(al) {
								rec(s2.Val, d+1)
							}
						}
						// a cell filled by a decoder: new storage at each call
						allocs = append(allocs, y)
						return
					}
					unknown = true
				case *ssa.Const:
				default:
					unknown = true
				}
			}
			rec(v, 0)
			outside := ""
			for _, a := range allocs {
				ab := a.Block()
				if ab == nil {
					continue
				}
				inLoop := ab == st.Block() || (blockReaches(st.Block(), ab) && blockReaches(ab, st.Block()))
				if !inLoop {
					outside = c.Pos(c.InstrPos(a))
				}
			}
			switch {
			case outside != "":
				c.S.Bad(id, key, c.Pos(st.Pos()), fmt.Sprintf("%s stores, in a loop, payloads that are slices of one buffer created outside the loop (at %s): the keys share a backing array and an in-place APPEND to one overwrites the next", fnName(fn), outside))
			case unknown:
				c.S.Trivial(id, key, c.Pos(st.Pos()), "payload from a parameter or field: judged where it is created")
			default:
				c.S.OK(id, key, c.Pos(st.Pos()), "the payload is allocated in the iteration that stores it")
			}
		}
	}
	if n == 0 {
		c.S.Trivial(id, "none", "-", "no byte payload is stored inside a loop")
	}
}

// appendIsConditional: some trip round the loop that carries p does not pass block b (the append happens for some
// items only: the carried variable is parser state, not a per-item value)
func appendIsConditional(p *ssa.Phi, b *ssa.BasicBlock) bool {
	// loop heads of the merge group that dominate b
	seen := map[*ssa.Phi]bool{p: true}
	group := []*ssa.Phi{p}
	for i := 0; i < len(group); i++ {
		for _, e := range group[i].Edges {
			if q, ok := e.(*ssa.Phi); ok && !seen[q] {
				seen[q] = true
				group = append(group, q)
			}
		}
	}
	for _, q := range group {
		hb := q.Block()
		if hb == b || !hb.Dominates(b) || !blockReaches(b, hb) {
			continue
		}
		// a path hb → hb that avoids b
		vis := map[*ssa.BasicBlock]bool{b: true}
		st := append([]*ssa.BasicBlock{}, hb.Succs...)
		for len(st) > 0 {
			x := st[len(st)-1]
			st = st[:len(st)-1]
			if vis[x] {
				continue
			}
			vis[x] = true
			if x == hb {
				return true
			}
			st = append(st, x.Succs...)
		}
	}
	return false
}

// ---------------------------------------------------------------- R-C07-deadline-base

const textDeadlineBase = "R-C07-deadline-base: a relative time to live counts from the moment the command executes: in code reachable from the handlers the receiver of every time.Time.Add that computes a deadline is a clock reading taken there (time.Now(), time.Unix of an argument) or a stored deadline — never a time kept in the command's context or the connection. A context is built when a command is queued inside MULTI and the handler runs at EXEC: `ctx.received.Add(ttl)` makes a queued PEXPIRE k 300 expire the key 300 ms after QUEUED, possibly before EXEC returns"

func ruleC07DeadlineBase(c *Ctx) {
	const id = "R-C07-deadline-base"
	c.S.Rule(id, textDeadlineBase, 1)
	hs, err := c.M.Handlers()
	if err != nil {
		c.S.Undecided(id, "anchors", "-", "handlers not found")
		return
	}
	reach := map[*ssa.Function]bool{}
	for _, h := range hs {
		for f := range c.M.Reach(h) {
			reach[f] = true
		}
	}
	n := 0
	for _, fn := range c.SrcFuncs() {
		if !reach[enclosing(fn)] {
			continue
		}
		k := 0
		for _, in := range instrsOf(fn) {
			call, ok := in.(*ssa.Call)
			if !ok || fullCalleeName(call) != "(time.Time).Add" || len(call.Call.Args) < 1 {
				continue
			}
			k++
			n++
			key := fmt.Sprintf("%s:add#%d", fnName(fn), k)
			var judge func(v ssa.Value, d int) (string, bool)
			judge = func(v ssa.Value, d int) (string, bool) {
				if d > 6 {
					return "", true
				}
				switch x := v.(type) {
				case *ssa.Call:
					switch fullCalleeName(x) {
					case "time.Now", "time.Unix", "time.UnixMilli", "time.UnixMicro":
						return "", true
					}
					if g := x.Call.StaticCallee(); g != nil && g.Pkg != nil && g.Pkg.Pkg.Path() == "time" && len(x.Call.Args) > 0 {
						return judge(x.Call.Args[0], d+1) // Truncate, Round, another Add
					}
					return "", true
				case *ssa.Convert:
					return judge(x.X, d+1)
				case *ssa.ChangeType:
					return judge(x.X, d+1)
				case *ssa.Phi:
					for _, e := range x.Edges {
						if w, ok := judge(e, d+1); !ok {
							return w, false
						}
					}
					return "", true
				case *ssa.UnOp:
					if x.Op != token.MUL {
						return "", true
					}
					if al, ok := x.X.(*ssa.Alloc); ok {
						for _, r := range referrers(al) {
							if st, ok := r.(*ssa.Store); ok && st.Addr == ssa.Value(al) {
								if w, ok := judge(st.Val, d+1); !ok {
									return w, false
								}
							}
						}
						return "", true
					}
					if fa, ok := x.X.(*ssa.FieldAddr); ok {
						f := fieldOf(fa)
						owner := c.ownerName(f)
						if c.isPkgType(fa.X.Type(), "cmdContext") || c.isPkgType(fa.X.Type(), "clientState") || c.isPkgType(fa.X.Type(), "clientCxn") || c.isPkgType(fa.X.Type(), "cmdDispatcher") {
							return owner + "." + f.Name(), false
						}
					}
					return "", true
				case *ssa.Field:
					if c.isPkgType(x.X.Type(), "cmdContext") || c.isPkgType(x.X.Type(), "clientState") {
						return "a field of the context", false
					}
				}
				return "", true
			}
			if w, ok := judge(call.Call.Args[0], 0); !ok {
				c.S.Bad(id, key, c.Pos(call.Pos()), fmt.Sprintf("%s computes a time by adding to %s, a time stored before the command executes: inside MULTI the deadline counts from the moment the command was queued", fnName(fn), w))
			} else {
				c.S.OK(id, key, c.Pos(call.Pos()), "the base is a clock reading of the executing command or a stored deadline")
			}
		}
	}
	if n == 0 {
		c.S.Trivial(id, "none", "-", "no time.Time.Add reachable from a handler")
	}
}

// ---------------------------------------------------------------- R-C07-mover-callers

const textMoverCallers = "R-C07-mover-callers: a key object taken out of the keyspace and put back under another name keeps its deadline; that is what RENAME and RENAMENX (and MOVE) mean and nothing else: a function that stores a looked-up key object under a name is reachable only from the handlers of those commands. A destination that a list, set or string command creates is a new key without a deadline — LMOVE of the last element through the rename primitive lets the new list inherit the source's time to live and vanish with it"

func ruleC07MoverCallers(c *Ctx) {
	const id = "R-C07-mover-callers"
	c.S.Rule(id, textMoverCallers, 1)
	mm := c.M.Muts()
	hs, err := c.M.Handlers()
	fKs := c.Field("dataStore", "data")
	if err != nil || fKs == nil || len(mm.errs) > 0 {
		c.S.Undecided(id, "anchors", "-", "handlers / keyspace / mutation model not available")
		return
	}
	allowed := map[string]bool{"rename": true, "renamenx": true, "move": true}
	// looked-up key objects: results of package functions that return a key object and read the keyspace, or dictionary reads
	lookedUp := func(v ssa.Value) bool {
		seen := map[ssa.Value]bool{}
		var rec func(x ssa.Value, d int) bool
		rec = func(x ssa.Value, d int) bool {
			if x == nil || seen[x] || d > 6 {
				return false
			}
			seen[x] = true
			switch y := x.(type) {
			case *ssa.Extract:
				return rec(y.Tuple, d+1)
			case *ssa.TypeAssert:
				return rec(y.X, d+1)
			case *ssa.MakeInterface:
				return rec(y.X, d+1)
			case *ssa.Phi:
				for _, e := range y.Edges {
					if rec(e, d+1) {
						return true
					}
				}
			case *ssa.Call:
				g := y.Call.StaticCallee()
				if g == nil || !c.InPkg(g) {
					return false
				}
				if g.Signature.Recv() != nil && c.isPkgType(g.Signature.Recv().Type(), "redisDict") && len(y.Call.Args) > 0 {
					_, f := loadedField(y.Call.Args[0])
					return f == fKs && !mm.dictStore[g] && !mm.dictRem[g]
				}
				// a lookup helper: returns a key object, takes a name, creates nothing
				if g.Signature.Results().Len() >= 1 && c.isPkgType(g.Signature.Results().At(0).Type(), "storeKey") {
					creates := false
					for f := range c.M.Reach(g) {
						for _, in := range instrsOf(f) {
							if al, ok := in.(*ssa.Alloc); ok && c.isPkgType(al.Type(), "storeKey") {
								creates = true
							}
						}
					}
					return !creates
				}
			}
			return false
		}
		return rec(v, 0)
	}
	n := 0
	for _, fn := range c.SrcFuncs() {
		k := 0
		for _, in := range instrsOf(fn) {
			call, ok := in.(*ssa.Call)
			if !ok || !mm.dictStore[call.Call.StaticCallee()] || len(call.Call.Args) < 3 {
				continue
			}
			if _, f := loadedField(call.Call.Args[0]); f != fKs {
				continue
			}
			if !lookedUp(call.Call.Args[2]) {
				continue
			}
			k++
			n++
			key := fmt.Sprintf("%s:moves-key-object#%d", fnName(fn), k)
			var bad []string
			var toks []string
			for tok := range hs {
				toks = append(toks, tok)
			}
			sortStrings(toks)
			for _, tok := range toks {
				if dh := c.txn().dispatchHandler; dh != nil && c.M.Reach(hs[tok])[dh] {
					continue // EXEC replays other commands: they are judged under their own names
				}
				if c.M.Reach(hs[tok])[fn] && !allowed[tok] {
					bad = append(bad, tok)
				}
			}
			if len(bad) > 0 {
				c.S.Bad(id, key, c.Pos(call.Pos()), fmt.Sprintf("%s puts an existing key object (with its deadline) under another name and is reachable from the handler(s) of %v: the key that command creates inherits the source's time to live", fnName(fn), bad))
			} else {
				c.S.OK(id, key, c.Pos(call.Pos()), "reachable from RENAME/RENAMENX only")
			}
		}
	}
	if n == 0 {
		c.S.Trivial(id, "none", "-", "no function stores a looked-up key object under a name")
	}
}

func sortStrings(a []string) {
	for i := 1; i < len(a); i++ {
		for j := i; j > 0 && a[j] < a[j-1]; j-- {
			a[j], a[j-1] = a[j-1], a[j]
		}
	}
}

// ---------------------------------------------------------------- R-options-before-change

const textOptionsBeforeChange = "R-options-before-change: a store method that takes its command's condition flags as boolean parameters (NX / XX / GT / LT of EXPIRE) decides on them before it changes anything: every mutation site of the method lies behind the first test of such a parameter (is dominated by it). A step inserted in front of the tests — `deadline already passed: remove the key now` — makes EXPIRE k -1 NX delete a key that the condition should have protected, and answer 1"

func ruleOptionsBeforeChange(c *Ctx) {
	const id = "R-options-before-change"
	c.S.Rule(id, textOptionsBeforeChange, 1)
	mm := c.M.Muts()
	if len(mm.errs) > 0 {
		c.S.Undecided(id, "anchors", "-", mm.errs[0])
		return
	}
	n := 0
	for _, fn := range c.SrcFuncs() {
		if fn.Signature.Recv() == nil || !c.isPkgType(fn.Signature.Recv().Type(), "dataStoreCommand") || len(mm.sites[fn]) == 0 {
			continue
		}
		// boolean parameters tested directly by an If
		var tests []*ssa.BasicBlock
		params := 0
		for _, p := range fn.Params[1:] {
			bt, ok := p.Type().Underlying().(*types.Basic)
			if !ok || bt.Kind() != types.Bool {
				continue
			}
			used := false
			for _, r := range referrers(p) {
				if ifi, ok := r.(*ssa.If); ok {
					tests = append(tests, ifi.Block())
					used = true
				}
			}
			if used {
				params++
			}
		}
		if params < 2 {
			continue
		}
		var root *ssa.BasicBlock
		for _, t := range tests {
			all := true
			for _, u := range tests {
				if u != t && !t.Dominates(u) {
					all = false
				}
			}
			if all {
				root = t
			}
		}
		n++
		key := fnName(fn) + ":conditions-first"
		if root == nil {
			c.S.Trivial(id, key, c.Pos(fn.Pos()), "the tests of the boolean parameters are not nested under a first one: not a chain of conditions")
			continue
		}
		bad := ""
		for _, s := range mm.sites[fn] {
			b := s.In.Block()
			if s.EffectAt != nil {
				b = s.EffectAt
			}
			if b != root && !root.Dominates(b) {
				bad = fmt.Sprintf("%s at %s", s.What, c.Pos(c.InstrPos(s.In)))
			}
		}
		if bad != "" {
			c.S.Bad(id, key, c.Pos(fn.Pos()), fmt.Sprintf("%s changes database state (%s) on a path that has not tested its condition flags yet: a command whose condition refuses still takes effect", fnName(fn), bad))
		} else {
			c.S.OK(id, key, c.Pos(fn.Pos()), fmt.Sprintf("%d mutation site(s), all behind the first condition test", len(mm.sites[fn])))
		}
	}
	if n == 0 {
		c.S.Trivial(id, "none", "-", "no store method with two or more tested boolean parameters and a mutation site")
	}
}

// ---------------------------------------------------------------- R-C09-queue-starts-empty

const textQueueStartsEmpty = "R-C09-queue-starts-empty: MULTI starts with an empty queue: the queue that a non-nil store puts into the connection's cmdQueue is a new, empty slice — or, when it is storage that the connection keeps between transactions (the address of one of its fields), every function that ends a transaction (stores nil into cmdQueue) also writes that field. With kept storage that EXEC truncates and DISCARD does not, the commands of a discarded transaction run at the next EXEC"

func ruleC09QueueStartsEmpty(c *Ctx) {
	const id = "R-C09-queue-starts-empty"
	c.S.Rule(id, textQueueStartsEmpty, 1)
	fQ := c.Field("clientState", "cmdQueue")
	if fQ == nil {
		c.S.Undecided(id, "anchors", "-", "clientState.cmdQueue not found")
		return
	}
	n := 0
	for _, fn := range c.SrcFuncs() {
		k := 0
		for _, in := range instrsOf(fn) {
			st, ok := isStoreTo(in, fQ)
			if !ok || isNilConst(st.Val) {
				continue
			}
			if fa, ok := st.Addr.(*ssa.FieldAddr); ok && isFresh(fa.X) {
				continue
			}
			if call, ok := st.Val.(*ssa.Call); ok {
				if b, isB := call.Call.Value.(*ssa.Builtin); isB && b.Name() == "append" {
					continue // the queue grows: not an installation
				}
			}
			k++
			n++
			key := fmt.Sprintf("%s:install#%d", fnName(fn), k)
			switch x := st.Val.(type) {
			case *ssa.MakeSlice:
				c.S.OK(id, key, c.Pos(st.Pos()), "a new slice")
			case *ssa.Slice:
				if _, isAl := x.X.(*ssa.Alloc); isAl {
					c.S.OK(id, key, c.Pos(st.Pos()), "a new, empty slice literal")
				} else {
					c.S.Bad(id, key, c.Pos(st.Pos()), fmt.Sprintf("%s installs as MULTI queue a slice of something that exists already: whether it is empty cannot be told", fnName(fn)))
				}
			case *ssa.Alloc:
				// a new slice variable: nothing may be put into it before it is installed except an empty literal
				c.S.OK(id, key, c.Pos(st.Pos()), "a new slice")
			case *ssa.FieldAddr:
				kept := fieldOf(x)
				bad := ""
				for _, g := range c.SrcFuncs() {
					ends, writes := false, false
					for _, in2 := range instrsOf(g) {
						if s2, ok := isStoreTo(in2, fQ); ok && isNilConst(s2.Val) {
							if fa, ok := s2.Addr.(*ssa.FieldAddr); !ok || !isFresh(fa.X) {
								ends = true
							}
						}
						if _, ok := isStoreTo(in2, kept); ok {
							writes = true
						}
					}
					if ends && !writes {
						bad = fnName(g)
					}
				}
				if bad != "" {
					c.S.Bad(id, key, c.Pos(st.Pos()), fmt.Sprintf("%s makes the connection's field %s the MULTI queue, and %s ends a transaction without emptying that field: the next MULTI starts with the old commands still queued", fnName(fn), kept.Name(), bad))
				} else {
					c.S.OK(id, key, c.Pos(st.Pos()), "kept storage, emptied wherever a transaction ends")
				}
			default:
				if call, ok := st.Val.(*ssa.Call); ok {
					if g := call.Call.StaticCallee(); g != nil && returnsFreshAt(c, g, 0, func(v ssa.Value, d int, s map[ssa.Value]bool) bool { _, isA := v.(*ssa.Alloc); return isA }, 0, map[ssa.Value]bool{}) {
						c.S.OK(id, key, c.Pos(st.Pos()), "a new slice from a constructor")
						continue
					}
				}
				c.S.Bad(id, key, c.Pos(st.Pos()), fmt.Sprintf("%s installs a MULTI queue that is neither a new slice nor a field of the connection: whether it is empty cannot be told", fnName(fn)))
			}
		}
	}
	if n == 0 {
		c.S.Undecided(id, "none", "-", "no non-nil store into clientState.cmdQueue")
	}
}

// ---------------------------------------------------------------- R-C11-delete-own-queue

const textDeleteOwnQueue = "R-C11-delete-own-queue: the index entry removed from the wait table when a queue of waiters becomes empty is the entry of THAT queue: the name given to delete() is read through the same registration (or list) whose unlinking (or emptiness test) guards the deletion. Taking the name from the waiter's last registration deletes the index entry of another key, whose waiters are then never found by a push — they stay blocked on a non-empty list"

func ruleC11DeleteOwnQueue(c *Ctx) {
	const id = "R-C11-delete-own-queue"
	c.S.Rule(id, textDeleteOwnQueue, 1)
	fTable := c.Field("waitTable", "table")
	if fTable == nil {
		c.S.Undecided(id, "anchors", "-", "waitTable.table not found")
		return
	}
	chain := func(v ssa.Value) []ssa.Value {
		var out []ssa.Value
		for i := 0; i < 8 && v != nil; i++ {
			out = append(out, v)
			u, ok := v.(*ssa.UnOp)
			if !ok || u.Op != token.MUL {
				break
			}
			fa, ok := u.X.(*ssa.FieldAddr)
			if !ok {
				break
			}
			v = fa.X
		}
		return out
	}
	n := 0
	for _, fn := range c.SrcFuncs() {
		k := 0
		for _, in := range instrsOf(fn) {
			call, ok := in.(*ssa.Call)
			if !ok {
				continue
			}
			b, isB := call.Call.Value.(*ssa.Builtin)
			if !isB || b.Name() != "delete" || len(call.Call.Args) != 2 {
				continue
			}
			if _, f := loadedField(call.Call.Args[0]); f != fTable {
				continue
			}
			k++
			n++
			key := fmt.Sprintf("%s:delete#%d", fnName(fn), k)
			name := call.Call.Args[1]
			// the guard: the nearest dominating If one of whose edges leads (alone) to the delete
			var subject ssa.Value
			for d := call.Block(); d != nil && subject == nil; d = d.Idom() {
				p := d.Idom()
				if p == nil {
					break
				}
				ifi, ok := p.Instrs[len(p.Instrs)-1].(*ssa.If)
				if !ok {
					continue
				}
				cond := ifi.Cond
				for {
					u, ok := cond.(*ssa.UnOp)
					if !ok || u.Op != token.NOT {
						break
					}
					cond = u.X
				}
				switch x := cond.(type) {
				case *ssa.Call:
					if len(x.Call.Args) > 0 && x.Call.StaticCallee() != nil && c.InPkg(x.Call.StaticCallee()) {
						subject = x.Call.Args[0]
					}
				case *ssa.BinOp:
					for _, side := range []ssa.Value{x.X, x.Y} {
						if base, f := loadedField(side); f != nil && base != nil {
							subject = base
						}
					}
					// `if emptied := ref.unlink(); emptied != nil`: the tested value is the queue itself
					if subject == nil && (x.Op == token.NEQ || x.Op == token.EQL) {
						if isNilConst(x.Y) {
							subject = x.X
						} else if isNilConst(x.X) {
							subject = x.Y
						}
					}
				}
			}
			if subject == nil {
				if _, isParam := name.(*ssa.Parameter); isParam {
					c.S.Trivial(id, key, c.Pos(call.Pos()), "the name is the caller's")
				} else {
					c.S.Undecided(id, key, c.Pos(call.Pos()), "no guard relating the deletion to a queue found")
				}
				continue
			}
			good := false
			for _, x := range chain(name) {
				if x == subject || sameValue(x, subject) {
					good = true
				}
			}
			if good {
				c.S.OK(id, key, c.Pos(call.Pos()), "the deleted name is read through the registration/list the guard is about")
			} else {
				c.S.Bad(id, key, c.Pos(call.Pos()), fmt.Sprintf("%s deletes a wait-table entry whose name is not read from the queue that just became empty: another key's waiters lose their index entry and are never woken", fnName(fn)))
			}
		}
	}
	if n == 0 {
		c.S.Undecided(id, "none", "-", "no delete on the wait table")
	}
}

// ---------------------------------------------------------------- R-C11-wake-count

const textWakeCount = "R-C11-wake-count: the number of waiters to wake for a key is the number of elements that were put into its list: what is stored into the wake record's element count is a length (len of the pushed values), a constant, or a count kept by the function — never a number from the command line. `uk.elements = count` with the LIMIT count of SORT … STORE is -1 for a plain SORT, and nobody blocked on the destination is woken although a list was created"

func ruleC11WakeCount(c *Ctx) {
	const id = "R-C11-wake-count"
	c.S.Rule(id, textWakeCount, 1)
	var fEl *types.Var
	for _, tn := range []string{"unblockKey", "unblockKeys"} {
		if f := c.Field(tn, "elements"); f != nil {
			fEl = f
		}
	}
	if fEl == nil {
		c.S.Undecided(id, "anchors", "-", "the element count of the wake record not found")
		return
	}
	var okVal func(v ssa.Value, d int, seen map[ssa.Value]bool) bool
	okVal = func(v ssa.Value, d int, seen map[ssa.Value]bool) bool {
		if d > 8 || seen[v] {
			return true
		}
		seen[v] = true
		switch x := v.(type) {
		case *ssa.Const:
			return true
		case *ssa.Call:
			if b, ok := x.Call.Value.(*ssa.Builtin); ok && (b.Name() == "len" || b.Name() == "min" || b.Name() == "max") {
				if b.Name() == "len" {
					return true
				}
				for _, a := range x.Call.Args {
					if !okVal(a, d+1, seen) {
						return false
					}
				}
				return true
			}
			return true // a helper's result: judged there
		case *ssa.BinOp:
			return okVal(x.X, d+1, seen) && okVal(x.Y, d+1, seen)
		case *ssa.Phi:
			for _, e := range x.Edges {
				if !okVal(e, d+1, seen) {
					return false
				}
			}
			return true
		case *ssa.Convert:
			return okVal(x.X, d+1, seen)
		case *ssa.UnOp:
			if x.Op == token.MUL {
				if al, ok := x.X.(*ssa.Alloc); ok {
					for _, r := range referrers(al) {
						if st, ok := r.(*ssa.Store); ok && st.Addr == ssa.Value(al) && !okVal(st.Val, d+1, seen) {
							return false
						}
					}
					return true
				}
				return true // a field: a count kept in an object
			}
			return okVal(x.X, d+1, seen)
		case *ssa.Parameter:
			// a number handed in: from the command line unless it is a length at every call site
			fn := x.Parent()
			idx := -1
			for i, p := range fn.Params {
				if p == x {
					idx = i
				}
			}
			node := c.CG.Nodes[fn]
			if node == nil || len(node.In) == 0 || idx < 0 {
				return false
			}
			for _, e := range node.In {
				args := e.Site.Common().Args
				if idx >= len(args) {
					return false
				}
				a := args[idx]
				if _, isC := a.(*ssa.Const); isC {
					continue
				}
				if cl, ok := a.(*ssa.Call); ok {
					if b, ok := cl.Call.Value.(*ssa.Builtin); ok && b.Name() == "len" {
						continue
					}
				}
				return false
			}
			return true
		}
		return true
	}
	n := 0
	for _, fn := range c.SrcFuncs() {
		k := 0
		for _, in := range instrsOf(fn) {
			st, ok := isStoreTo(in, fEl)
			if !ok {
				continue
			}
			k++
			n++
			key := fmt.Sprintf("%s:wake-count#%d", fnName(fn), k)
			if okVal(st.Val, 0, map[ssa.Value]bool{}) {
				c.S.OK(id, key, c.Pos(st.Pos()), "a length, a constant or a kept count")
			} else {
				c.S.Bad(id, key, c.Pos(st.Pos()), fmt.Sprintf("%s takes the number of waiters to wake from a parameter that is not a length at its call sites (a number from the command line): it can be negative or unrelated to what was stored, and blocked clients are not woken", fnName(fn)))
			}
		}
	}
	if n == 0 {
		c.S.Undecided(id, "none", "-", "no store into the wake record's element count")
	}
}

// ---------------------------------------------------------------- R-C20-done-of-cancelled-lane

const textDoneLane = "R-C20-done-of-cancelled-lane: a goroutine that ends when the emulator is terminated waits on the Done channel of a lane that the termination cancels: the receiver of every Done() in the package is not (derived from) the result of DeriveWithoutCancel — that lane's Done channel never fires, the saver goroutine never ends, WaitForTermination waits for it for ever and the final save is not taken"

func ruleC20DoneLane(c *Ctx) {
	const id = "R-C20-done-of-cancelled-lane"
	c.S.Rule(id, textDoneLane, 1)
	var root func(v ssa.Value, d int) ssa.Value
	root = func(v ssa.Value, d int) ssa.Value {
		if d > 6 {
			return v
		}
		switch x := v.(type) {
		case *ssa.UnOp:
			if x.Op == token.MUL {
				switch y := x.X.(type) {
				case *ssa.FreeVar:
					if b := freeVarBinding(y); b != nil {
						// the captured variable's cell: what was stored into it
						if al, ok := b.(*ssa.Alloc); ok {
							for _, r := range referrers(al) {
								if st, ok := r.(*ssa.Store); ok && st.Addr == ssa.Value(al) {
									return root(st.Val, d+1)
								}
							}
						}
						return root(b, d+1)
					}
				case *ssa.Alloc:
					for _, r := range referrers(y) {
						if st, ok := r.(*ssa.Store); ok && st.Addr == ssa.Value(y) {
							return root(st.Val, d+1)
						}
					}
				}
			}
		case *ssa.FreeVar:
			if b := freeVarBinding(x); b != nil {
				return root(b, d+1)
			}
		case *ssa.Extract:
			return root(x.Tuple, d+1)
		case *ssa.ChangeInterface:
			return root(x.X, d+1)
		case *ssa.MakeInterface:
			return root(x.X, d+1)
		}
		return v
	}
	n := 0
	for _, fn := range c.SrcFuncs() {
		k := 0
		for _, in := range instrsOf(fn) {
			call, ok := in.(*ssa.Call)
			if !ok || !call.Call.IsInvoke() || call.Call.Method.Name() != "Done" || call.Call.Signature().Params().Len() != 0 {
				continue
			}
			if _, isChan := call.Type().Underlying().(*types.Chan); !isChan {
				continue
			}
			k++
			n++
			key := fmt.Sprintf("%s:done#%d", fnName(fn), k)
			r := root(call.Call.Value, 0)
			if rc, ok := r.(*ssa.Call); ok && rc.Call.IsInvoke() && rc.Call.Method.Name() == "DeriveWithoutCancel" {
				c.S.Bad(id, key, c.Pos(call.Pos()), fmt.Sprintf("%s waits on Done() of a lane made by DeriveWithoutCancel: that channel never fires, the goroutine outlives the termination request", fnName(fn)))
			} else {
				c.S.OK(id, key, c.Pos(call.Pos()), "the lane is not one derived without cancellation")
			}
		}
	}
	if n == 0 {
		c.S.Undecided(id, "none", "-", "no Done() of a lane in the package")
	}
}

func freeVarBinding(fv *ssa.FreeVar) ssa.Value {
	fn := fv.Parent()
	par := fn.Parent()
	if par == nil {
		return nil
	}
	idx := -1
	for i, v := range fn.FreeVars {
		if v == fv {
			idx = i
		}
	}
	for _, in := range instrsOf(par) {
		if mc, ok := in.(*ssa.MakeClosure); ok && mc.Fn == ssa.Value(fn) && idx >= 0 && idx < len(mc.Bindings) {
			return mc.Bindings[idx]
		}
	}
	return nil
}

// ---------------------------------------------------------------- R-C20-no-global-alias

const textNoGlobalAlias = "R-C20-no-global-alias: what one emulator changes is its own: a map or slice held in a package-level variable is not installed in a field of an instance object that the package then modifies through that field (insert, delete, element store). `handlers: handlerTable` instead of a copy makes DisableClientSetInfo of one emulator delete the command from the table every emulator in the process uses — also those started after it was closed"

func ruleC20NoGlobalAlias(c *Ctx) {
	const id = "R-C20-no-global-alias"
	c.S.Rule(id, textNoGlobalAlias, 0)
	// fields modified through a load
	mutated := map[*types.Var]string{}
	for _, fn := range c.SrcFuncs() {
		for _, in := range instrsOf(fn) {
			switch x := in.(type) {
			case *ssa.MapUpdate:
				if _, f := loadedField(x.Map); f != nil {
					mutated[f] = c.Pos(x.Pos())
				}
			case *ssa.Call:
				if b, ok := x.Call.Value.(*ssa.Builtin); ok && b.Name() == "delete" && len(x.Call.Args) == 2 {
					if _, f := loadedField(x.Call.Args[0]); f != nil {
						mutated[f] = c.Pos(x.Pos())
					}
				}
			case *ssa.Store:
				if ia, ok := x.Addr.(*ssa.IndexAddr); ok {
					if _, f := loadedField(ia.X); f != nil {
						mutated[f] = c.Pos(x.Pos())
					}
				}
			}
		}
	}
	n := 0
	for _, fn := range c.SrcFuncs() {
		k := 0
		for _, in := range instrsOf(fn) {
			st, ok := in.(*ssa.Store)
			if !ok {
				continue
			}
			fa, ok := st.Addr.(*ssa.FieldAddr)
			if !ok {
				continue
			}
			u, ok := st.Val.(*ssa.UnOp)
			if !ok || u.Op != token.MUL {
				continue
			}
			g, ok := u.X.(*ssa.Global)
			if !ok || !c.InPkgGlobal(g) {
				continue
			}
			switch st.Val.Type().Underlying().(type) {
			case *types.Map, *types.Slice:
			default:
				continue
			}
			k++
			n++
			f := fieldOf(fa)
			key := fmt.Sprintf("%s:%s=%s", fnName(fn), f.Name(), g.Name())
			if at, isMut := mutated[f]; isMut {
				c.S.Bad(id, key, c.Pos(st.Pos()), fmt.Sprintf("%s installs the package-level %s in the instance field %s, which is modified at %s: one emulator's configuration changes every other emulator's", fnName(fn), g.Name(), f.Name(), at))
			} else {
				c.S.OK(id, key, c.Pos(st.Pos()), "shared but never modified through the field")
			}
		}
	}
	if n == 0 {
		c.S.Trivial(id, "none", "-", "no instance field is set to a package-level map or slice")
	}
}

// ---------------------------------------------------------------- R-C20-listener-published-at-once

const textListenerAtOnce = "R-C20-listener-published-at-once: RequestTermination can only close a listener it can see: between the successful net.Listen and the store of the listener into the emulator's field (under the mutex) the start-up function calls nothing of the package and starts no goroutine. If the command tables are parsed first, a termination request that arrives meanwhile finds no listener, and the accept loop that Start then launches is never closed — WaitForTermination hangs and the port stays bound"

func ruleC20ListenerAtOnce(c *Ctx) {
	const id = "R-C20-listener-published-at-once"
	c.S.Rule(id, textListenerAtOnce, 1)
	n := 0
	for _, fn := range c.SrcFuncs() {
		for _, in := range instrsOf(fn) {
			lc, ok := in.(*ssa.Call)
			if !ok || fullCalleeName(lc) != "net.Listen" {
				continue
			}
			var lst ssa.Value
			for _, r := range referrers(lc) {
				if e, ok := r.(*ssa.Extract); ok && e.Index == 0 {
					lst = e
				}
			}
			if lst == nil {
				continue
			}
			n++
			key := fnName(fn) + ":listen"
			// the store of the listener into a field
			isLst := func(v ssa.Value) bool {
				if v == lst {
					return true
				}
				if u, ok := v.(*ssa.UnOp); ok && u.Op == token.MUL {
					if al, ok := u.X.(*ssa.Alloc); ok {
						for _, r := range referrers(al) {
							if s2, ok := r.(*ssa.Store); ok && s2.Addr == ssa.Value(al) && s2.Val == lst {
								return true
							}
						}
					}
				}
				return false
			}
			isPublish := func(in2 ssa.Instruction) bool {
				// through a helper that stores its parameter into a field
				if call, ok := in2.(*ssa.Call); ok {
					if g := call.Call.StaticCallee(); g != nil && c.InPkg(g) {
						for i, a := range call.Call.Args {
							if !isLst(a) || i >= len(g.Params) {
								continue
							}
							for _, in3 := range instrsOf(g) {
								if s3, ok := in3.(*ssa.Store); ok && s3.Val == ssa.Value(g.Params[i]) {
									if _, ok := s3.Addr.(*ssa.FieldAddr); ok {
										return true
									}
								}
							}
						}
					}
					return false
				}
				st, ok := in2.(*ssa.Store)
				if !ok {
					return false
				}
				if _, ok := st.Addr.(*ssa.FieldAddr); !ok {
					return false
				}
				v := st.Val
				if u, ok := v.(*ssa.UnOp); ok && u.Op == token.MUL {
					if al, ok := u.X.(*ssa.Alloc); ok {
						for _, r := range referrers(al) {
							if s2, ok := r.(*ssa.Store); ok && s2.Addr == ssa.Value(al) && s2.Val == lst {
								return true
							}
						}
					}
				}
				return v == lst
			}
			published := false
			for _, in2 := range instrsOf(fn) {
				if isPublish(in2) {
					published = true
				}
			}
			if !published {
				c.S.Bad(id, key, c.Pos(lc.Pos()), fmt.Sprintf("%s never stores the listener into a field: RequestTermination cannot close it", fnName(fn)))
				continue
			}
			bad := ""
			seen := map[*ssa.BasicBlock]bool{}
			var walk func(b *ssa.BasicBlock, start int)
			walk = func(b *ssa.BasicBlock, start int) {
				for _, in2 := range b.Instrs[start:] {
					if isPublish(in2) {
						return
					}
					switch x := in2.(type) {
					case *ssa.Go:
						bad = "a goroutine is started at " + c.Pos(x.Pos())
						return
					case *ssa.Call:
						if g := x.Call.StaticCallee(); g != nil && c.InPkg(g) && g.Signature.Recv() == nil || g != nil && c.InPkg(g) && !c.isPkgType(g.Signature.Recv().Type(), "RedisEmu") {
							bad = fnName(g) + " is called at " + c.Pos(x.Pos())
							return
						}
					case *ssa.Return:
						bad = "the function returns at " + c.Pos(c.InstrPos(x)) + " without publishing"
						return
					}
				}
				for _, s := range b.Succs {
					if !seen[s] {
						seen[s] = true
						walk(s, 0)
					}
				}
			}
			walk(lc.Block(), instrIndex(lc)+1)
			if bad != "" {
				c.S.Bad(id, key, c.Pos(lc.Pos()), fmt.Sprintf("%s has a listening socket that RequestTermination cannot see yet while %s: a termination request in that window is lost and the accept loop is never closed", fnName(fn), bad))
			} else {
				c.S.OK(id, key, c.Pos(lc.Pos()), "the listener is stored before anything else of the package runs")
			}
		}
	}
	if n == 0 {
		c.S.Undecided(id, "none", "-", "no net.Listen in the package")
	}
}

// computesAggregate: g (with what it calls) creates a dictionary or list object and does not put anything into the
// keyspace: its result is a computed value, not the aggregate stored under the name it was given
func computesAggregate(c *Ctx, g *ssa.Function) bool {
	mm := c.M.Muts()
	fKs := c.Field("dataStore", "data")
	creates, stores := false, false
	for f := range c.M.Reach(g) {
		for _, in := range instrsOf(f) {
			switch x := in.(type) {
			case *ssa.Alloc:
				if pt, ok := x.Type().Underlying().(*types.Pointer); ok && (c.isPkgType(pt.Elem(), "redisDict") || c.isPkgType(pt.Elem(), "storeList")) {
					if _, isStruct := pt.Elem().Underlying().(*types.Struct); isStruct {
						creates = true
					}
				}
			case *ssa.Call:
				if h := x.Call.StaticCallee(); h != nil && mm.dictStore[h] && len(x.Call.Args) > 0 {
					if _, ff := loadedField(x.Call.Args[0]); ff == fKs {
						stores = true
					}
				}
			}
		}
	}
	return creates && !stores
}

// ---------------------------------------------------------------- R-list-cache-invalidated

const textListCache = "R-list-cache-invalidated: a list header that remembers a node besides its two ends (a position memo: a further field of pointer-to-node type) forgets it whenever the chain changes: every function that writes a link of a node or an end of a list also writes that field (itself or through what it calls). A memo cleared by push, pop and remove but not by LINSERT makes a later LSET by index overwrite the node the index used to denote"

func ruleListCacheInvalidated(c *Ctx) {
	const id = "R-list-cache-invalidated"
	c.S.Rule(id, textListCache, 0)
	nt := c.NamedType("storeList")
	fNext, fPrev := c.Field("listItem", "next"), c.Field("listItem", "prev")
	fHead, fTail := c.Field("storeList", "head"), c.Field("storeList", "tail")
	if nt == nil || fNext == nil || fPrev == nil || fHead == nil || fTail == nil {
		c.S.Undecided(id, "anchors", "-", "list types not found")
		return
	}
	var memo []*types.Var
	if st, ok := nt.Underlying().(*types.Struct); ok {
		for i := 0; i < st.NumFields(); i++ {
			f := st.Field(i)
			if f == fHead || f == fTail {
				continue
			}
			if pt, ok := f.Type().Underlying().(*types.Pointer); ok && c.isPkgType(pt.Elem(), "listItem") {
				memo = append(memo, f)
			}
		}
	}
	if len(memo) == 0 {
		c.S.Trivial(id, "none", "-", "the list header points to its two ends only")
		return
	}
	writes := func(fn *ssa.Function, fs ...*types.Var) bool {
		for _, in := range instrsOf(fn) {
			for _, f := range fs {
				if st, ok := isStoreTo(in, f); ok {
					if fa, ok := st.Addr.(*ssa.FieldAddr); ok && isFresh(fa.X) {
						continue
					}
					return true
				}
			}
		}
		return false
	}
	for _, fn := range c.SrcFuncs() {
		if !writes(fn, fNext, fPrev, fHead, fTail) {
			continue
		}
		for _, m := range memo {
			key := fmt.Sprintf("%s:%s", fnName(fn), m.Name())
			ok := false
			for g := range c.M.Reach(fn) {
				if writes(g, m) {
					ok = true
				}
			}
			if ok {
				c.S.OK(id, key, c.Pos(fn.Pos()), "the remembered node is written where the chain changes")
			} else {
				c.S.Bad(id, key, c.Pos(fn.Pos()), fmt.Sprintf("%s changes the chain of a list and leaves the remembered node %s as it is: a later access through the memo reaches a node at another position (or one that was removed)", fnName(fn), m.Name()))
			}
		}
	}
}
