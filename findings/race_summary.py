import re,sys
txt=open(sys.argv[1]).read()
blocks=txt.split('WARNING: DATA RACE')[1:]
seen={}
for b in blocks:
    def locs(s):
        return [l for l in re.findall(r'/tmp/rddemo\.\w+/([\w\-]+\.go:\d+)', s) if not l.startswith('zz_') and not l.startswith('c16')]
    parts=re.split(r'\n\s*\n', b)
    first=parts[0] if parts else ''
    prev=b.split('Previous')[1].split('Goroutine')[0] if 'Previous' in b else ''
    m=re.search(r'(Write|Read) at', first); m2=re.search(r'^ (write|read) at', prev)
    a=locs(first.split('Previous')[0]); p=locs(prev)
    key=((m.group(1) if m else '?')+' '+(a[0] if a else '?'), (m2.group(1) if m2 else '?')+' '+(p[0] if p else '?'))
    seen[key]=seen.get(key,0)+1
for k,v in sorted(seen.items()):
    print(v, k)
