#!/usr/bin/env python3
"""Collects a sub-agent's deliverables (<src>/mutation<i>.diff, demo<i>_test.go, notes<i>.md) into
/verif/seeded/<prop>-m<k>/ with an initial meta.json (completed by seed_eval.py).
usage: collect_seeds.py [--src '/tmp/seedout_{prop}'] <prop>...     (k continues after the existing seeds of <prop>)"""
import json, os, shutil, sys, re, glob
titles = {json.loads(l)['id']: json.loads(l)['title'] for l in open('/verif/properties.jsonl')}
args = sys.argv[1:]
srcpat = '/tmp/seedout_{prop}'
if args and args[0] == '--src':
    srcpat = args[1]; args = args[2:]
for prop in args:
    src = srcpat.format(prop=prop)
    have = [int(re.search(r'-m(\d+)$', d).group(1)) for d in glob.glob(f'/verif/seeded/{prop}-m*')]
    k = max(have) if have else 0
    for i in range(1, 10):
        d = f'{src}/mutation{i}.diff'
        if not os.path.exists(d):
            continue
        # already collected? (same patch text)
        txt = open(d).read()
        if any(os.path.exists(x + '/patch.diff') and open(x + '/patch.diff').read() == txt for x in glob.glob(f'/verif/seeded/{prop}-m*')):
            print('already collected', d); continue
        k += 1
        dst = f'/verif/seeded/{prop}-m{k}'
        os.makedirs(dst, exist_ok=True)
        shutil.copy(d, dst + '/patch.diff')
        shutil.copy(f'{src}/demo{i}_test.go', dst + '/demo_test.go')
        notes = open(f'{src}/notes{i}.md').read() if os.path.exists(f'{src}/notes{i}.md') else ''
        open(dst + '/notes.md', 'w').write(notes)
        demo = open(dst + '/demo_test.go').read()
        ms = [x for x in re.findall(r'func (TestSeed\w*)\(', demo) if not x.endswith('Child')] or re.findall(r'func (TestSeed\w*)\(', demo); m = ms and type('M', (), {'group': lambda self, i: ms[0]})()
        meta = {'property': prop, 'title': titles[prop],
                'origin': 'independent sub-agent given only the property text (and a list of changes already tried) and a scratch worktree',
                'test': m.group(1) if m else f'TestSeed{i}', 'go_test_flags': '', 'demo_runs': 1}
        json.dump(meta, open(dst + '/meta.json', 'w'), indent=1)
        print('collected', dst, meta['test'])
