#!/bin/sh
# usage: tools/verify_seed.sh <patch.diff> <demo_test.go> <TestName> [extra go test flags]
# Confirms, in a scratch copy of /repo HEAD: demo passes without the patch, patch applies and builds,
# demo fails with the patch, the existing suite passes with the patch. Removes the scratch copy.
P="$1"; DEMO="$2"; T="$3"; shift 3
export GOFLAGS=-mod=mod GOPROXY=off GOSUMDB=off GOTOOLCHAIN=local
D="$(mktemp -d /tmp/seedchk.XXXXXX)"
trap 'rm -rf "$D"' EXIT
rsync -a --exclude .git /repo/ "$D"/
cd "$D" || exit 2
cp "$DEMO" ./zz_seed_demo_test.go
r0=$(go test -vet=off -count=1 -timeout 120s -run "^$T\$" "$@" . 2>&1 | tail -1)
git init -q . 2>/dev/null; 
if ! git apply "$P" 2>/tmp/apply.err; then echo "APPLY-FAILED $(head -1 /tmp/apply.err)"; exit 3; fi
if ! go build ./... 2>/dev/null; then echo "BUILD-FAILED"; exit 4; fi
r1=$(go test -vet=off -count=1 -timeout 120s -run "^$T\$" "$@" . 2>&1 | grep -E "^(ok|FAIL|---|panic)" | head -3 | tr '\n' ' ')
rm -f zz_seed_demo_test.go
r2=$(go test -vet=off -count=1 -timeout 300s . 2>&1 | tail -1)
echo "clean-demo: $r0"
echo "patched-demo: $r1"
echo "patched-suite: $r2"
