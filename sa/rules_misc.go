package main

// Small sibling-agreement and ordering rules added after the third batch of seeded changes.

import (
	"fmt"
	"go/constant"
	"go/token"
	"go/types"
	"sort"
	"strings"

	"golang.org/x/tools/go/ssa"
)

// ---------------------------------------------------------------- R-float-text

const textFloatText = "R-float-text: every place that turns a float64 into reply text uses fixed notation (strconv.FormatFloat(x, 'f', …) or a %f verb), as all sibling sites do: %v/%g/%e and the 'g'/'e' formats switch to exponent notation below 1e-4 and from 1e21, which no Redis client parses as the number INCRBYFLOAT/HINCRBYFLOAT/ZSCORE returned"

func isFloatType(t types.Type) bool {
	b, ok := t.Underlying().(*types.Basic)
	return ok && (b.Kind() == types.Float64 || b.Kind() == types.Float32)
}

func ruleFloatText(c *Ctx) {
	c.S.Rule("R-float-text", textFloatText, 1)
	for _, fn := range c.SrcFuncs() {
		k := 0
		for _, in := range instrsOf(fn) {
			call, ok := in.(*ssa.Call)
			if !ok {
				continue
			}
			name := fullCalleeName(call)
			switch {
			case name == "strconv.FormatFloat" && len(call.Call.Args) >= 2:
				k++
				key := fmt.Sprintf("%s:float-to-text#%d", fnName(fn), k)
				if f, isC := constInt(call.Call.Args[1]); isC && (f == 'f' || f == 'F') {
					c.S.OK("R-float-text", key, c.Pos(call.Pos()), "fixed notation")
				} else {
					c.S.Bad("R-float-text", key, c.Pos(call.Pos()), fmt.Sprintf("%s formats a float with a format other than 'f': small and large values come out in exponent notation", fnName(fn)))
				}
			case name == "fmt.Sprintf" || name == "fmt.Sprint" || name == "fmt.Sprintln" || name == "fmt.Fprintf" || name == "fmt.Appendf":
				// the variadic arguments: stores of MakeInterface values into the varargs array
				var floats []int
				var va ssa.Value = call.Call.Args[len(call.Call.Args)-1]
				sl, ok := va.(*ssa.Slice)
				if !ok {
					continue
				}
				arr, ok := sl.X.(*ssa.Alloc)
				if !ok {
					continue
				}
				for _, r := range referrers(arr) {
					ia, ok := r.(*ssa.IndexAddr)
					if !ok {
						continue
					}
					idx, isC := constInt(ia.Index)
					if !isC {
						continue
					}
					for _, r2 := range referrers(ia) {
						if st, ok := r2.(*ssa.Store); ok {
							if mi, ok := st.Val.(*ssa.MakeInterface); ok && isFloatType(mi.X.Type()) {
								floats = append(floats, int(idx))
							}
						}
					}
				}
				if len(floats) == 0 {
					continue
				}
				sort.Ints(floats)
				verbs := []string(nil)
				if strings.HasSuffix(name, "f") {
					fi := 0
					if name == "fmt.Fprintf" || name == "fmt.Appendf" {
						fi = 1
					}
					if cst, ok := call.Call.Args[fi].(*ssa.Const); ok && cst.Value != nil && cst.Value.Kind() == constant.String {
						verbs = formatVerbs(constant.StringVal(cst.Value))
					}
				}
				for _, ai := range floats {
					k++
					key := fmt.Sprintf("%s:float-to-text#%d", fnName(fn), k)
					verb := "v"
					if verbs != nil && ai < len(verbs) {
						verb = verbs[ai]
					}
					if verb == "f" || verb == "F" {
						c.S.OK("R-float-text", key, c.Pos(call.Pos()), "fixed notation (%f)")
					} else {
						c.S.Bad("R-float-text", key, c.Pos(call.Pos()), fmt.Sprintf("%s formats a float with %%%s: values below 1e-4 or from 1e21 come out in exponent notation (1e-05), unlike every sibling site, which uses fixed notation", fnName(fn), verb))
					}
				}
			}
		}
	}
}

// formatVerbs: the verb letter of each argument-consuming directive of a format string, in order.
func formatVerbs(f string) []string {
	var out []string
	for i := 0; i < len(f); i++ {
		if f[i] != '%' {
			continue
		}
		i++
		for i < len(f) && strings.ContainsRune("+-# 0123456789.[]*", rune(f[i])) {
			if f[i] == '*' {
				out = append(out, "*")
			}
			i++
		}
		if i < len(f) && f[i] != '%' {
			out = append(out, string(f[i]))
		}
	}
	return out
}

// ---------------------------------------------------------------- A1-unlisted-global

const textUnlistedGlobal = "A1-unlisted-global: a package-level variable that is not in the guarded-by table and is written at run time by code that connection goroutines reach is accessed under one common lock class at every access (or only atomically): a lazily initialised package-level cache written by a command handler is a data race between two connections"

func ruleUnlistedGlobal(c *Ctx) {
	c.S.Rule("A1-unlisted-global", textUnlistedGlobal, 0)
	lm := c.M.Locks()
	rm := c.M.Req()
	gt := rm.gt
	// functions reachable from goroutine roots (connection handlers, workers): anything in Reach of a root
	conc := map[*ssa.Function]bool{}
	for _, r := range rm.roots {
		for f := range c.M.Reach(r) {
			conc[f] = true
		}
		conc[r] = true
	}
	type st struct {
		writes, n int
		held      lockSet
		atomic    bool
		writers   map[string]bool
		pos       string
	}
	by := map[*ssa.Global]*st{}
	for _, fn := range c.SrcFuncs() {
		if fn.Name() == "init" && fn.Parent() == nil {
			continue
		}
		if !conc[fn] {
			continue
		}
		for _, a := range c.Accesses(fn) {
			if a.Glob == nil || a.Field != nil {
				continue
			}
			if _, listed := gt.byGlob[a.Glob]; listed {
				continue
			}
			if isMutexType(deref(a.Glob.Type())) {
				continue
			}
			s := by[a.Glob]
			if s == nil {
				s = &st{held: ^lockSet(0), atomic: true, writers: map[string]bool{}}
				by[a.Glob] = s
			}
			s.n++
			if !a.Atomic {
				s.atomic = false
			}
			s.held &= lm.LocallyHeld(a.In)
			if a.Write {
				s.writes++
				s.writers[fnName(fn)] = true
				if s.pos == "" {
					s.pos = c.Pos(c.InstrPos(a.In))
				}
			}
		}
	}
	var gs []*ssa.Global
	for g, s := range by {
		if s.writes > 0 {
			gs = append(gs, g)
		}
	}
	sort.Slice(gs, func(i, j int) bool { return gs[i].Name() < gs[j].Name() })
	n := 0
	for _, g := range gs {
		s := by[g]
		if why, ok := globalAllow[g.Name()]; ok && why != "" {
			continue
		}
		n++
		key := "global " + g.Name()
		var ws []string
		for w := range s.writers {
			ws = append(ws, w)
		}
		sort.Strings(ws)
		switch {
		case s.atomic:
			c.S.OK("A1-unlisted-global", key, s.pos, "only accessed through sync/atomic")
		case s.held != 0:
			c.S.OK("A1-unlisted-global", key, s.pos, "every access holds "+lm.setString(s.held))
		default:
			c.S.Bad("A1-unlisted-global", key, s.pos, fmt.Sprintf("package-level %s is written at run time by %s, which connection goroutines reach, and its accesses have no lock class in common: two connections race on it", g.Name(), strings.Join(ws, ", ")))
		}
	}
	if n == 0 {
		c.S.Trivial("A1-unlisted-global", "none", "-", "every package-level variable written at run time by connection code is in the guarded-by table")
	}
}

// ---------------------------------------------------------------- R-C12-write-deadline

const textWriteDeadline = "R-C12-write-deadline: a deadline for writing the reply, if one is set at all, is computed after the command has run (the call that sets it is dominated by the dispatch call in the reply goroutine): a deadline taken before a blocking command starts has expired when the command ends after its timeout, and the reply is lost"

func ruleC12WriteDeadline(c *Ctx) {
	c.S.Rule("R-C12-write-deadline", textWriteDeadline, 0)
	a := c.cxn()
	if len(a.errs) > 0 || a.writeFn == nil {
		c.S.Undecided("R-C12-write-deadline", "anchors", "-", strings.Join(a.errs, "; "))
		return
	}
	// the dispatch call: the call in the writer (or the function that contains the writer) whose result is serialised
	n := 0
	for _, fn := range c.SrcFuncs() {
		for _, in := range instrsOf(fn) {
			call, ok := in.(ssa.CallInstruction)
			if !ok || !(isConnMethod(call, "SetWriteDeadline") || isConnMethod(call, "SetDeadline")) {
				continue
			}
			if !enclosingRecv(c, fn) {
				continue
			}
			n++
			key := fmt.Sprintf("%s:deadline#%d", fnName(fn), n)
			// a dispatch call (reaches the command dispatcher) in the same function that dominates this call
			okAfter := false
			for _, in2 := range instrsOf(fn) {
				c2, ok := in2.(*ssa.Call)
				if !ok || c2 == in {
					continue
				}
				g := c2.Call.StaticCallee()
				if g == nil || !c.InPkg(g) {
					continue
				}
				if hs := c.M.Locks().handlerDynSites; len(hs) > 0 {
					reaches := false
					for site := range hs {
						if site.Parent() == g || c.M.Reach(g)[site.Parent()] {
							reaches = true
						}
					}
					if reaches && instrDominates(in2, in) {
						okAfter = true
					}
				}
			}
			encloses := false
			for f := a.writeFn; f != nil; f = f.Parent() {
				if f == fn {
					encloses = true // the function that starts the reply goroutine
				}
			}
			if !encloses && !c.M.Reach(fn)[a.writeFn] && !c.M.Reach(a.writeFn)[fn] {
				c.S.Trivial("R-C12-write-deadline", key, c.Pos(in.Pos()), "not on the reply path")
				continue
			}
			if okAfter {
				c.S.OK("R-C12-write-deadline", key, c.Pos(in.Pos()), "set after the command has run")
			} else {
				c.S.Bad("R-C12-write-deadline", key, c.Pos(in.Pos()), fmt.Sprintf("%s sets the connection's write deadline before the command is dispatched: a blocking command that ends after its timeout finds the deadline expired and its reply is never written", fnName(fn)))
			}
		}
	}
	if n == 0 {
		c.S.Trivial("R-C12-write-deadline", "none", "-", "no write deadline is set on connections")
	}
}

// ---------------------------------------------------------------- R-C12-state-cas

const textStateCAS = "R-C12-state-cas: the capture state of a connection (clientState.blocked) is a state machine shared by the blocked command and by every goroutine that inspects or unblocks it; each write to it is a CompareAndSwap from one named state to another, or a Store of a named state by the goroutine that owns the transient state (dominated by its own successful CompareAndSwap). An unconditional Swap, or writing back a value read earlier, loses the update of a concurrent checker: two overlapping checks leave the state at CHECKING for ever and the blocked command can never end"

func ruleC12StateCAS(c *Ctx) {
	c.S.Rule("R-C12-state-cas", textStateCAS, 2)
	fBlocked := c.Field("clientState", "blocked")
	if fBlocked == nil {
		c.S.Undecided("R-C12-state-cas", "anchor", "-", "clientState.blocked not found")
		return
	}
	onField := func(call *ssa.Call) bool {
		if len(call.Call.Args) == 0 {
			return false
		}
		fa, ok := call.Call.Args[0].(*ssa.FieldAddr)
		return ok && fieldOf(fa) == fBlocked
	}
	var isConstArg func(v ssa.Value) bool
	isConstArg = func(v ssa.Value) bool {
		v = stripValue(v)
		if _, ok := constInt(v); ok {
			return true
		}
		// a parameter of a transition helper (setLock(from, to)): a named state at every call site — also when the
		// transition sits in a closure that captured the parameter (a retry loop that takes the attempt as a function)
		if fv, isFV := v.(*ssa.FreeVar); isFV {
			fn := fv.Parent()
			for i, x := range fn.FreeVars {
				if x != fv || fn.Parent() == nil {
					continue
				}
				for _, in := range instrsOf(fn.Parent()) {
					if mc, ok := in.(*ssa.MakeClosure); ok && mc.Fn == ssa.Value(fn) && i < len(mc.Bindings) {
						b := mc.Bindings[i]
						// a captured parameter is bound by its cell: the cell holds the parameter
						if al, ok := b.(*ssa.Alloc); ok {
							for _, r := range referrers(al) {
								if st, ok := r.(*ssa.Store); ok && st.Addr == ssa.Value(al) {
									return isConstArg(st.Val)
								}
							}
						}
						return isConstArg(b)
					}
				}
			}
			return false
		}
		if u, isLoad := v.(*ssa.UnOp); isLoad && u.Op == token.MUL {
			if _, isFV := u.X.(*ssa.FreeVar); isFV {
				return isConstArg(u.X) // the captured cell of a parameter
			}
		}
		p, ok := v.(*ssa.Parameter)
		if !ok {
			return false
		}
		fn := p.Parent()
		idx := -1
		for i, q := range fn.Params {
			if q == p {
				idx = i
			}
		}
		node := c.CG.Nodes[fn]
		if node == nil || idx < 0 || len(node.In) == 0 {
			return false
		}
		for _, e := range node.In {
			args := e.Site.Common().Args
			if e.Site.Common().IsInvoke() || idx >= len(args) {
				return false
			}
			if _, ok := constInt(stripValue(args[idx])); !ok {
				return false
			}
		}
		return true
	}
	for _, fn := range c.SrcFuncs() {
		k := 0
		// successful-CAS edges of this function on the field
		type edge struct{ from, to *ssa.BasicBlock }
		var owned []edge
		for _, b := range fn.Blocks {
			ifi, ok := b.Instrs[len(b.Instrs)-1].(*ssa.If)
			if !ok {
				continue
			}
			cond, neg := ifi.Cond, false
			for {
				u, isU := cond.(*ssa.UnOp)
				if !isU || u.Op != token.NOT {
					break
				}
				cond, neg = u.X, !neg
			}
			if call, ok := cond.(*ssa.Call); ok && strings.HasPrefix(fullCalleeName(call), "sync/atomic.CompareAndSwap") && onField(call) {
				idx := 0
				if neg {
					idx = 1
				}
				owned = append(owned, edge{b, b.Succs[idx]})
			}
		}
		for _, in := range instrsOf(fn) {
			call, ok := in.(*ssa.Call)
			if !ok || !onField(call) {
				continue
			}
			name := fullCalleeName(call)
			if !strings.HasPrefix(name, "sync/atomic.") {
				continue
			}
			op := strings.TrimPrefix(name, "sync/atomic.")
			if strings.HasPrefix(op, "Load") {
				continue
			}
			k++
			key := fmt.Sprintf("%s:state-write#%d", fnName(fn), k)
			switch {
			case strings.HasPrefix(op, "CompareAndSwap"):
				if len(call.Call.Args) == 3 && isConstArg(call.Call.Args[2]) {
					c.S.OK("R-C12-state-cas", key, c.Pos(call.Pos()), "CompareAndSwap to a named state")
				} else {
					c.S.Bad("R-C12-state-cas", key, c.Pos(call.Pos()), fmt.Sprintf("%s moves the capture state to a value that is not a named state", fnName(fn)))
				}
			case strings.HasPrefix(op, "Store"):
				ownedHere := false
				for _, e := range owned {
					if len(e.to.Preds) == 1 && (e.to == call.Block() || e.to.Dominates(call.Block())) {
						ownedHere = true
					}
				}
				if ownedHere && len(call.Call.Args) == 2 && isConstArg(call.Call.Args[1]) {
					c.S.OK("R-C12-state-cas", key, c.Pos(call.Pos()), "Store of a named state by the owner of the transient state")
				} else {
					c.S.Bad("R-C12-state-cas", key, c.Pos(call.Pos()), fmt.Sprintf("%s stores into the capture state without owning it (no successful CompareAndSwap of its own dominates the store) or stores a value that is not a named state", fnName(fn)))
				}
			default:
				what := "overwrites the capture state unconditionally (" + op + ")"
				if len(call.Call.Args) == 2 && !isConstArg(call.Call.Args[1]) {
					what = "writes back a state value it read earlier (" + op + ")"
				}
				c.S.Bad("R-C12-state-cas", key, c.Pos(call.Pos()), fmt.Sprintf("%s %s: when two goroutines check at the same time, one of them restores CHECKING over the other's restored state, and the state machine is stuck — the blocked command can never end and every later check spins", fnName(fn), what))
			}
		}
	}
}

// ---------------------------------------------------------------- R-pool-escape

const textPoolEscape = "R-pool-escape: an object handed back to a sync.Pool (Put, deferred or not) is not also returned to the caller of the same function, whole or as the slice it points to: the caller would write (to the socket) bytes that another goroutine's Get is already overwriting — replies of different connections mix"

func rulePoolEscape(c *Ctx) {
	c.S.Rule("R-pool-escape", textPoolEscape, 0)
	n := 0
	for _, fn := range c.SrcFuncs() {
		k := 0
		for _, in := range instrsOf(fn) {
			ci, ok := in.(ssa.CallInstruction)
			if !ok || fullCalleeName(ci) != "(*sync.Pool).Put" || len(ci.Common().Args) < 2 {
				continue
			}
			k++
			n++
			key := fmt.Sprintf("%s:put#%d", fnName(fn), k)
			obj := stripValue(ci.Common().Args[1])
			derived := map[ssa.Value]bool{obj: true}
			for changed := true; changed; {
				changed = false
				for _, in2 := range instrsOf(fn) {
					v, ok := in2.(ssa.Value)
					if !ok || derived[v] {
						continue
					}
					d := false
					switch x := in2.(type) {
					case *ssa.UnOp:
						d = x.Op == token.MUL && derived[x.X]
						// a local cell (a result spilled because of the defer) that holds a derived value
						if al, isAl := x.X.(*ssa.Alloc); isAl && x.Op == token.MUL && !d {
							for _, r := range referrers(al) {
								if st, ok := r.(*ssa.Store); ok && st.Addr == ssa.Value(al) && derived[st.Val] {
									d = true
								}
							}
						}
					case *ssa.Slice:
						d = derived[x.X]
					case *ssa.Phi:
						for _, e := range x.Edges {
							d = d || derived[e]
						}
					case *ssa.ChangeType:
						d = derived[x.X]
					case *ssa.MakeInterface:
						d = derived[x.X]
					case *ssa.TypeAssert:
						d = derived[x.X]
					case *ssa.Call:
						if b, isB := x.Call.Value.(*ssa.Builtin); isB && b.Name() == "append" && len(x.Call.Args) > 0 {
							d = derived[x.Call.Args[0]]
						}
					case *ssa.FieldAddr:
						d = derived[x.X]
					case *ssa.IndexAddr:
						d = derived[x.X]
					}
					if d {
						derived[v] = true
						changed = true
					}
				}
			}
			escapes := ""
			for _, b := range fn.Blocks {
				if ret, ok := b.Instrs[len(b.Instrs)-1].(*ssa.Return); ok {
					for _, r := range ret.Results {
						if derived[r] || derived[stripValue(r)] {
							escapes = c.Pos(ret.Pos())
						}
					}
				}
			}
			if escapes != "" {
				c.S.Bad("R-pool-escape", key, c.Pos(in.Pos()), fmt.Sprintf("%s puts an object back into a sync.Pool and returns it (or the slice it holds) to its caller at %s: while the caller still uses the bytes, the next Get hands them to another goroutine", fnName(fn), escapes))
			} else {
				c.S.OK("R-pool-escape", key, c.Pos(in.Pos()), "the pooled object does not outlive the function")
			}
		}
	}
	if n == 0 {
		c.S.Trivial("R-pool-escape", "none", "-", "no sync.Pool is used")
	}
}

// ---------------------------------------------------------------- R-C12-pending-reset

const textPendingReset = "R-C12-pending-reset: the flag that limits unblock requests to one per capture (the CompareAndSwap 0→1 whose success guards the post to the mailbox) is set back to 0 by the function that drains the mailbox and ends the capture — on every path, whichever way the wait ended. If it is reset only where an unblock request was received, a request that collides with a timeout or a push leaves the flag set for ever and no later CLIENT UNBLOCK can end a blocking command of that connection"

func ruleC12PendingReset(c *Ctx) {
	c.S.Rule("R-C12-pending-reset", textPendingReset, 1)
	fCh := c.Field("clientState", "unblockCh")
	fBlocked := c.Field("clientState", "blocked")
	if fCh == nil || fBlocked == nil {
		c.S.Undecided("R-C12-pending-reset", "anchors", "-", "clientState.unblockCh / blocked not found")
		return
	}
	atomicOn := func(call *ssa.Call) *types.Var {
		if !strings.HasPrefix(fullCalleeName(call), "sync/atomic.") || len(call.Call.Args) == 0 {
			return nil
		}
		if fa, ok := call.Call.Args[0].(*ssa.FieldAddr); ok {
			return fieldOf(fa)
		}
		return nil
	}
	// the guard flag: a CAS(0,1) on a clientState field other than the state, in a function that posts to the mailbox
	var flag *types.Var
	for _, fn := range c.SrcFuncs() {
		posts := false
		for _, in := range instrsOf(fn) {
			if s, ok := in.(*ssa.Send); ok {
				if _, f := loadedField(s.Chan); f == fCh {
					posts = true
				}
			}
		}
		if !posts {
			continue
		}
		for _, in := range instrsOf(fn) {
			if call, ok := in.(*ssa.Call); ok && strings.HasPrefix(fullCalleeName(call), "sync/atomic.CompareAndSwap") {
				if f := atomicOn(call); f != nil && f != fBlocked && c.ownerName(f) == "clientState" {
					flag = f
				}
			}
		}
	}
	if flag == nil {
		c.S.Trivial("R-C12-pending-reset", "none", "-", "posts to the mailbox are not limited by a pending flag")
		return
	}
	// the release function: drains the mailbox (a select with default on it, possibly in a closure or helper method)
	n := 0
	for _, fn := range c.SrcFuncs() {
		if fn.Parent() != nil || fn.Signature.Recv() == nil || !c.isPkgType(fn.Signature.Recv().Type(), "clientState") {
			continue
		}
		drains := false
		var scan func(f *ssa.Function, d int)
		resets := map[*ssa.Function]bool{}
		scan = func(f *ssa.Function, d int) {
			if f == nil || f.Blocks == nil || d > 2 {
				return
			}
			for _, g := range append([]*ssa.Function{f}, f.AnonFuncs...) {
				for _, in := range instrsOf(g) {
					if s, ok := in.(*ssa.Select); ok && !s.Blocking {
						drains = true
					}
					if call, ok := in.(*ssa.Call); ok {
						if h := call.Call.StaticCallee(); h != nil && h != f && h.Signature.Recv() != nil && c.isPkgType(h.Signature.Recv().Type(), "clientState") {
							scan(h, d+1)
						}
					}
				}
			}
		}
		scan(fn, 0)
		if !drains {
			continue
		}
		// does it move the state as well (the release), or only drain (a helper)?
		movesState := false
		for _, g := range c.M.Reach(fn) {
			_ = g
		}
		for f := range c.M.Reach(fn) {
			for _, in := range instrsOf(f) {
				if call, ok := in.(*ssa.Call); ok && atomicOn(call) == fBlocked && !strings.HasPrefix(fullCalleeName(call), "sync/atomic.Load") {
					movesState = true
				}
			}
		}
		if !movesState {
			continue
		}
		n++
		key := fnName(fn) + ":resets-" + c.canonFieldName(flag)
		// a store of 0 to the flag on every path from entry to return
		isReset := func(in ssa.Instruction) bool {
			call, ok := in.(*ssa.Call)
			if !ok {
				return false
			}
			if atomicOn(call) == flag && strings.HasPrefix(fullCalleeName(call), "sync/atomic.Store") {
				if k, isC := constInt(call.Call.Args[len(call.Call.Args)-1]); isC && k == 0 {
					return true
				}
			}
			return false
		}
		_ = resets
		cm := &CoverModel{m: c.M, mm: c.M.Muts(), isEvent: isReset, always: map[*ssa.Function]bool{}}
		if cm.exitReachableWithoutE(fn, fn.Blocks[0], 0) {
			c.S.Bad("R-C12-pending-reset", key, c.Pos(fn.Pos()), fmt.Sprintf("%s ends the capture without setting %s back to 0 on some path: an unblock request that arrives together with a timeout or a push leaves the flag set, and no later unblock request is ever posted to this connection", fnName(fn), flag.Name()))
		} else {
			c.S.OK("R-C12-pending-reset", key, c.Pos(fn.Pos()), "the pending flag is reset on every path of the release")
		}
	}
	if n == 0 {
		c.S.Undecided("R-C12-pending-reset", "release", "-", "no clientState method drains the mailbox and moves the capture state")
	}
}

// ---------------------------------------------------------------- R-dict-iterate-modify

const textIterModify = "R-dict-iterate-modify: inside a loop driven by an iterator over a dictionary, the same dictionary is neither removed from nor stored into: a removal can shrink (rehash) the table under the iterator, which then skips or repeats buckets — SINTER would return members it should have dropped"

func ruleDictIterateModify(c *Ctx) {
	c.S.Rule("R-dict-iterate-modify", textIterModify, 1)
	mm := c.M.Muts()
	n := 0
	for _, fn := range c.SrcFuncs() {
		k := 0
		for _, in := range instrsOf(fn) {
			mk, ok := in.(*ssa.Call)
			if !ok {
				continue
			}
			g := mk.Call.StaticCallee()
			if g == nil || g.Signature.Recv() == nil || !c.isPkgType(g.Signature.Recv().Type(), "redisDict") || g.Signature.Results().Len() != 1 || len(mk.Call.Args) == 0 {
				continue
			}
			// an iterator constructor: returns a (pointer to a) struct that is not the dictionary itself
			rt := g.Signature.Results().At(0).Type()
			if c.isPkgType(rt, "redisDict") {
				continue
			}
			if _, isStruct := deref(rt).Underlying().(*types.Struct); !isStruct {
				continue
			}
			dict := mk.Call.Args[0]
			// the loop: blocks in a cycle that call a method on the iterator
			loop := map[*ssa.BasicBlock]bool{}
			for _, r := range referrers(mk) {
				if call, ok := r.(*ssa.Call); ok && len(call.Call.Args) > 0 && call.Call.Args[0] == ssa.Value(mk) && blockInCycle(call.Block()) {
					hb := call.Block()
					for _, b := range fn.Blocks {
						if plainReachAvoid(hb, b, nil) && plainReachAvoid(b, hb, nil) {
							loop[b] = true
						}
					}
				}
			}
			if len(loop) == 0 {
				continue
			}
			k++
			n++
			key := fmt.Sprintf("%s:iteration#%d", fnName(fn), k)
			bad := ""
			for b := range loop {
				for _, in2 := range b.Instrs {
					call, ok := in2.(*ssa.Call)
					if !ok || len(call.Call.Args) == 0 {
						continue
					}
					h := call.Call.StaticCallee()
					if h == nil || !(mm.dictStore[h] || mm.dictRem[h]) {
						continue
					}
					if sameValue(call.Call.Args[0], dict) {
						bad = c.Pos(call.Pos())
					}
				}
			}
			if bad != "" {
				c.S.Bad("R-dict-iterate-modify", key, bad, fmt.Sprintf("%s changes the dictionary it is iterating over (at %s): a removal can rehash the table under the iterator, which then skips or repeats entries", fnName(fn), bad))
			} else {
				c.S.OK("R-dict-iterate-modify", key, c.Pos(mk.Pos()), "the iterated dictionary is not changed inside the loop")
			}
		}
	}
	if n == 0 {
		c.S.Trivial("R-dict-iterate-modify", "none", "-", "no iterator loop over a dictionary")
	}
}
