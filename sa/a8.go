package main

// A8 — client-controlled integers at size, index and shift sinks.
// Taint: numbers asserted out of command args and numbers parsed from text (strconv.*), propagated
// through arithmetic, conversions, phis, calls/returns, local cells, pointer-to-int arguments and
// struct fields. At every sink the tainted operand must be bounded on the side(s) that matter by a
// dominating comparison (edge-sensitive; clamps through phis; through parameters: at every call site).

import (
	"fmt"
	"go/constant"
	"go/token"
	"go/types"
	"math"
	"sort"
	"strings"

	"golang.org/x/tools/go/ssa"
)

type a8Model struct {
	c       *Ctx
	tainted map[ssa.Value]bool
	fieldT  map[*types.Var]bool
	retT    map[*ssa.Function]map[int]bool
	callers map[*ssa.Function][]ssa.CallInstruction
	memo    map[string]int // 0 unknown, 1 true, 2 false, 3 busy
	srcDesc map[ssa.Value]string
}

func isNumeric(t types.Type) bool {
	if _, isTuple := t.(*types.Tuple); isTuple {
		return true
	}
	if p, ok := t.Underlying().(*types.Pointer); ok {
		t = p.Elem()
	}
	b, ok := t.Underlying().(*types.Basic)
	return ok && b.Info()&(types.IsInteger|types.IsFloat) != 0
}

// a8: taint in two phases — fields whose every tainted store is already bounded on both sides at the
// store (a validated length, a clamped position) do not carry the taint on.
func (c *Ctx) a8() *a8Model {
	m := c.a8phase(nil)
	clean := map[*types.Var]bool{}
	for f := range m.fieldT {
		if m.fieldBounded(f, sideUpper) && m.fieldBounded(f, sideLower) {
			clean[f] = true
		}
	}
	if len(clean) == 0 {
		return m
	}
	return c.a8phase(clean)
}

func (c *Ctx) a8phase(cleanFields map[*types.Var]bool) *a8Model {
	m := &a8Model{c: c, tainted: map[ssa.Value]bool{}, fieldT: map[*types.Var]bool{}, retT: map[*ssa.Function]map[int]bool{},
		callers: map[*ssa.Function][]ssa.CallInstruction{}, memo: map[string]int{}, srcDesc: map[ssa.Value]string{}}
	p := c.Prog
	fns := c.SrcFuncs()
	for _, fn := range fns {
		for _, in := range instrsOf(fn) {
			if call, ok := in.(ssa.CallInstruction); ok {
				if _, isGo := in.(*ssa.Go); isGo {
					continue
				}
				for _, g := range p.CalleesData(call) {
					if p.InPkg(g) && len(g.Blocks) > 0 {
						m.callers[g] = append(m.callers[g], call)
					}
				}
			}
		}
	}
	seed := func(v ssa.Value) (bool, string) {
		switch x := v.(type) {
		case *ssa.TypeAssert:
			if !isNumeric(x.AssertedType) {
				return false, ""
			}
			switch y := x.X.(type) {
			case *ssa.Lookup:
				if k, ok := constString(y.Index); ok {
					return true, "argument " + quote(k)
				}
				return true, "command argument"
			case *ssa.Extract:
				if _, ok := y.Tuple.(*ssa.Lookup); ok {
					return true, "command argument"
				}
			case *ssa.Call:
				if g := y.Call.StaticCallee(); g != nil && g.Signature.Recv() != nil && typeName(g.Signature.Recv().Type()) == "orderedMap" {
					if len(y.Call.Args) > 1 {
						if k, ok := constString(y.Call.Args[1]); ok {
							return true, "argument " + quote(k)
						}
					}
					return true, "command argument"
				}
			case *ssa.UnOp:
				// ranged value of an args map (`for name, arg := range args { arg.(int64) }`)
				return derivesFromRange(y), "command argument"
			}
			if ex, ok := x.X.(*ssa.Extract); ok {
				if n, ok := ex.Tuple.(*ssa.Next); ok && !n.IsString {
					return true, "command argument"
				}
			}
		case *ssa.Call:
			name := fullCalleeName(x)
			if strings.HasPrefix(name, "strconv.Parse") || name == "strconv.Atoi" {
				return true, "number parsed from client/stored text (" + name + ")"
			}
			if strings.Contains(name, "encoding/binary") && strings.Contains(name, ".Uint") {
				return true, "number decoded from a binary payload (" + name[strings.LastIndex(name, ".")+1:] + ")"
			}
		}
		return false, ""
	}
	mark := func(v ssa.Value, why string) bool {
		if v == nil || m.tainted[v] || !isNumeric(v.Type()) {
			return false
		}
		m.tainted[v] = true
		if why != "" {
			m.srcDesc[v] = why
		}
		return true
	}
	why := func(vs ...ssa.Value) string {
		for _, v := range vs {
			if d := m.srcDesc[v]; d != "" {
				return d
			}
		}
		return ""
	}
	for changed := true; changed; {
		changed = false
		for _, fn := range fns {
			for _, in := range instrsOf(fn) {
				if v, ok := in.(ssa.Value); ok && !m.tainted[v] {
					t, w := seed(v)
					if !t {
						switch x := v.(type) {
						case *ssa.Extract:
							if m.tainted[x.Tuple] && (x.Index == 0 || !isParseCall(x.Tuple)) {
								t, w = true, why(x.Tuple)
							}
							if ta, ok := x.Tuple.(*ssa.TypeAssert); ok && x.Index == 0 {
								if tt, ww := seed(ta); tt {
									t, w = true, ww
								}
							}
							if call, ok := x.Tuple.(*ssa.Call); ok {
								for _, g := range p.CalleesData(call) {
									if m.retT[g][x.Index] {
										t, w = true, "result of "+fnName(g)
									}
								}
							}
						case *ssa.Convert:
							t, w = m.tainted[x.X], why(x.X)
						case *ssa.ChangeType:
							t, w = m.tainted[x.X], why(x.X)
						case *ssa.BinOp:
							switch x.Op {
							case token.ADD, token.SUB, token.MUL, token.QUO, token.REM, token.AND, token.OR, token.XOR, token.SHL, token.SHR, token.AND_NOT:
								t, w = m.tainted[x.X] || m.tainted[x.Y], why(x.X, x.Y)
							}
						case *ssa.UnOp:
							switch x.Op {
							case token.SUB, token.XOR:
								t, w = m.tainted[x.X], why(x.X)
							case token.MUL:
								// load: local cell, pointer parameter, struct field
								if al, ok := x.X.(*ssa.Alloc); ok {
									for _, rr := range referrers(al) {
										if st, ok := rr.(*ssa.Store); ok && st.Addr == al && m.tainted[st.Val] {
											t, w = true, why(st.Val)
										}
									}
								}
								if m.tainted[x.X] { // tainted pointer
									t, w = true, why(x.X)
								}
								if fa, ok := x.X.(*ssa.FieldAddr); ok && m.fieldT[fieldOf(fa)] {
									t, w = true, "field "+fieldOf(fa).Name()
								}
							}
						case *ssa.Phi:
							for _, e := range x.Edges {
								if m.tainted[e] {
									t, w = true, why(e)
								}
							}
						case *ssa.Call:
							for _, g := range p.CalleesData(x) {
								if m.retT[g][0] && g.Signature.Results().Len() == 1 {
									t, w = true, "result of "+fnName(g)
								}
							}
						case *ssa.Field:
							t = m.fieldT[fieldOf(x)]
						}
					}
					if t && mark(v, w) {
						changed = true
					}
				}
				switch x := in.(type) {
				case *ssa.Store:
					if fa, ok := x.Addr.(*ssa.FieldAddr); ok && m.tainted[x.Val] && !m.fieldT[fieldOf(fa)] && isNumeric(x.Val.Type()) && !a8SpecType(c.ownerName(fieldOf(fa))) && !cleanFields[fieldOf(fa)] {
						m.fieldT[fieldOf(fa)] = true
						changed = true
					}
					// address of a local int passed around: taint the cell
					if al, ok := x.Addr.(*ssa.Alloc); ok && m.tainted[x.Val] && isNumeric(al.Type()) && !m.tainted[al] {
						if _, isPtrToNum := al.Type().Underlying().(*types.Pointer); isPtrToNum {
							m.tainted[al] = true
							m.srcDesc[al] = why(x.Val)
							changed = true
						}
					}
				case ssa.CallInstruction:
					for _, g := range p.CalleesData(x) {
						if !p.InPkg(g) || len(g.Blocks) == 0 || len(g.Params) != len(x.Common().Args) {
							continue
						}
						for i, a := range x.Common().Args {
							if m.tainted[a] && mark(g.Params[i], why(a)) {
								changed = true
							}
							// phi of (nil, &cell)
							if phi, ok := a.(*ssa.Phi); ok {
								for _, e := range phi.Edges {
									if m.tainted[e] && mark(g.Params[i], why(e)) {
										changed = true
									}
								}
							}
						}
					}
				case *ssa.Return:
					for i, r := range x.Results {
						if m.tainted[r] {
							if m.retT[fn] == nil {
								m.retT[fn] = map[int]bool{}
							}
							if !m.retT[fn][i] {
								m.retT[fn][i] = true
								changed = true
							}
						}
					}
				}
			}
		}
	}
	return m
}

// a8SpecType: structs that hold the embedded command specification (numbers in them come from the
// package's own resource files, not from clients).
func a8SpecType(owner string) bool {
	return strings.HasPrefix(owner, "redisInfo") || strings.HasPrefix(owner, "redisCommand") || strings.HasPrefix(owner, "redisArg")
}

// a8OutOfScope: functions whose index/shift arithmetic is the bit-exact part (C18, not applicable) or
// that talk to a real server.
func a8OutOfScope(c *Ctx, fn *ssa.Function) string {
	for f := fn; f != nil; f = f.Parent() {
		if f.Signature.Recv() != nil && c.isPkgType(f.Signature.Recv().Type(), "realRedisClient") {
			return "client for a real server"
		}
	}
	file := c.Fset.Position(fn.Pos()).Filename
	if strings.HasSuffix(file, "/bitMath.go") || strings.HasSuffix(file, "/bitmapUtils.go") {
		return "bit-level arithmetic on a byte array sized by the caller (C18, value-level)"
	}
	return ""
}

func isParseCall(v ssa.Value) bool {
	call, ok := v.(*ssa.Call)
	return ok && (strings.HasPrefix(fullCalleeName(call), "strconv."))
}

func derivesFromRange(u *ssa.UnOp) bool { return false }

// root strips value-preserving wrappers so that `count` (int64) and `int(count)` compare equal.
func a8root(v ssa.Value) ssa.Value {
	for {
		switch x := v.(type) {
		case *ssa.Convert:
			// only integer↔integer conversions of the same or larger width keep the guard meaningful
			if isNumeric(x.X.Type()) {
				v = x.X
				continue
			}
		case *ssa.ChangeType:
			v = x.X
			continue
		}
		return v
	}
}

// sameA8: the same SSA value, or two loads of the same location (field of the same object, the same
// pointer parameter) — `if *count < 0 {…}; n := *count`.
func sameA8(a, b ssa.Value) bool {
	if a == b {
		return true
	}
	if sameValue(a, b) {
		return true
	}
	ua, ok1 := a.(*ssa.UnOp)
	ub, ok2 := b.(*ssa.UnOp)
	if ok1 && ok2 && ua.Op == token.MUL && ub.Op == token.MUL {
		if pa, ok := ua.X.(*ssa.Parameter); ok && ub.X == ssa.Value(pa) {
			return true
		}
	}
	return false
}

const (
	sideUpper  = 1
	sideLower  = 2 // >= 0
	sideNegate = 4 // not the smallest integer (operand of a negation)
)

// guardEstablishes: the edge from block d to its successor #idx bounds v on `side`.
func (m *a8Model) guardEstablishes(d *ssa.BasicBlock, idx int, v ssa.Value, side int) bool {
	ifi, ok := d.Instrs[len(d.Instrs)-1].(*ssa.If)
	if !ok {
		return false
	}
	// a range predicate of the package (`if lifetimeOutOfRange(ttl, unit) { refuse }`): on the side on which it answered
	// false every comparison it is the disjunction of is false
	if side == sideUpper {
		cond, neg := ifi.Cond, false
		for {
			u, isU := cond.(*ssa.UnOp)
			if !isU || u.Op != token.NOT {
				break
			}
			cond, neg = u.X, !neg
		}
		if call, isCall := cond.(*ssa.Call); isCall {
			falseSide := (idx == 1) != neg
			if g := call.Call.StaticCallee(); g != nil && falseSide && len(g.Blocks) > 0 {
				rv := a8root(v)
				for i, a := range call.Call.Args {
					if sameA8(a8root(a), rv) && i < len(g.Params) && disjunctBoundsAbove(g, g.Params[i]) {
						return true
					}
				}
			}
		}
	}
	bo, ok := ifi.Cond.(*ssa.BinOp)
	if !ok {
		return false
	}
	rv := a8root(v)
	var other ssa.Value
	op := bo.Op
	// for the mere existence of an upper bound a constant added to or subtracted from the compared value is
	// irrelevant:  v-1 > len(x)-6  bounds v just as  v > len(x)  does
	lhs, rhs := a8root(bo.X), a8root(bo.Y)
	if side == sideUpper {
		lhs, rhs = a8root(stripConstOffset(bo.X)), a8root(stripConstOffset(bo.Y))
	}
	switch {
	case sameA8(lhs, rv):
		other = bo.Y
	case sameA8(rhs, rv):
		other = bo.X
		// mirror: c OP v  ==  v OP' c
		switch op {
		case token.LSS:
			op = token.GTR
		case token.GTR:
			op = token.LSS
		case token.LEQ:
			op = token.GEQ
		case token.GEQ:
			op = token.LEQ
		}
	default:
		return false
	}
	onTrue := idx == 0
	// which relation holds on this edge
	rel := op
	if !onTrue {
		switch op {
		case token.LSS:
			rel = token.GEQ
		case token.LEQ:
			rel = token.GTR
		case token.GTR:
			rel = token.LEQ
		case token.GEQ:
			rel = token.LSS
		case token.EQL:
			rel = token.NEQ
		case token.NEQ:
			rel = token.EQL
		}
	}
	otherBoundedUp := !m.tainted[other] || m.bounded(other, d, sideUpper)
	switch side {
	case sideUpper:
		return (rel == token.LSS || rel == token.LEQ || rel == token.EQL) && otherBoundedUp
	case sideLower:
		if rel == token.EQL && otherBoundedUp {
			if k, isC := constInt(other); isC {
				return k >= 0
			}
			return !m.tainted[other]
		}
		if rel == token.GTR || rel == token.GEQ {
			if k, isC := constInt(other); isC {
				return k >= 0 || (rel == token.GTR && k >= -1)
			}
			if kc, ok := other.(*ssa.Const); ok && kc.Value != nil && kc.Value.Kind() == constant.Float {
				f, _ := constant.Float64Val(kc.Value)
				return f >= 0
			}
			// v >= untainted non-negative quantity (len, count), or >= a tainted value that is itself >= 0
			if !m.tainted[other] {
				return isLenLike(other)
			}
			return m.bounded(other, d, sideLower)
		}
	}
	return false
}

// stripConstOffset: v ± constant (through integer conversions) -> v
func stripConstOffset(v ssa.Value) ssa.Value {
	for i := 0; i < 6; i++ {
		v = a8root(v)
		bo, ok := v.(*ssa.BinOp)
		if !ok || (bo.Op != token.ADD && bo.Op != token.SUB) {
			return v
		}
		if _, isC := bo.Y.(*ssa.Const); isC {
			v = bo.X
			continue
		}
		if _, isC := bo.X.(*ssa.Const); isC && bo.Op == token.ADD {
			v = bo.Y
			continue
		}
		return v
	}
	return v
}

func isLenLike(v ssa.Value) bool {
	v = a8root(v)
	if call, ok := v.(*ssa.Call); ok {
		if b, ok := call.Call.Value.(*ssa.Builtin); ok && (b.Name() == "len" || b.Name() == "cap") {
			return true
		}
	}
	if _, f := loadedField(v); f != nil && f.Name() == "count" {
		return true
	}
	return false
}

// dominatedByGuard: every path from entry to blk passes an edge that bounds v on side.
func (m *a8Model) dominatedByGuard(v ssa.Value, blk *ssa.BasicBlock, side int) bool {
	seen := map[*ssa.BasicBlock]bool{}
	def := (*ssa.BasicBlock)(nil)
	if in, ok := a8root(v).(ssa.Instruction); ok {
		// a load can be repeated: an earlier load of the same location may carry the guard
		if u, isLoad := in.(*ssa.UnOp); !(isLoad && u.Op == token.MUL) {
			def = in.Block()
		}
	}
	var walk func(b *ssa.BasicBlock) bool
	walk = func(b *ssa.BasicBlock) bool {
		if seen[b] {
			return true
		}
		seen[b] = true
		if b == def || len(b.Preds) == 0 {
			return false
		}
		for _, pr := range b.Preds {
			idx := 0
			if len(pr.Succs) == 2 && pr.Succs[1] == b {
				idx = 1
			}
			if len(pr.Succs) == 2 && pr.Succs[0] != pr.Succs[1] && m.guardEstablishes(pr, idx, v, side) {
				continue
			}
			if !walk(pr) {
				return false
			}
		}
		return true
	}
	return walk(blk)
}

func (m *a8Model) bounded(v ssa.Value, at *ssa.BasicBlock, side int) bool {
	if v == nil || !m.tainted[v] {
		return true
	}
	key := fmt.Sprintf("%p/%p/%d", v, at, side)
	switch m.memo[key] {
	case 1, 3:
		return true
	case 2:
		return false
	}
	m.memo[key] = 3
	r := m.boundedUncached(v, at, side)
	if r {
		m.memo[key] = 1
	} else {
		m.memo[key] = 2
	}
	return r
}

func smallInt(t types.Type) bool {
	b, ok := t.Underlying().(*types.Basic)
	if !ok {
		return false
	}
	switch b.Kind() {
	case types.Int8, types.Uint8, types.Int16, types.Uint16, types.Bool:
		return true
	}
	return false
}

func (m *a8Model) boundedUncached(v ssa.Value, at *ssa.BasicBlock, side int) bool {
	if m.dominatedByGuard(v, at, side) {
		return true
	}
	switch x := v.(type) {
	case *ssa.Const:
		return true
	case *ssa.Convert:
		if smallInt(x.Type()) {
			return true
		}
		if b, ok := x.Type().Underlying().(*types.Basic); ok && b.Info()&types.IsUnsigned != 0 && side == sideLower {
			return true
		}
		// float → int keeps order
		return m.bounded(x.X, at, side)
	case *ssa.ChangeType:
		return m.bounded(x.X, at, side)
	case *ssa.UnOp:
		switch x.Op {
		case token.SUB:
			if side == sideUpper {
				return m.bounded(x.X, at, sideLower)
			}
			return false // -x >= 0 needs x <= 0: not tracked
		case token.MUL:
			// load of a local cell: all stores bounded at their sites
			if al, ok := x.X.(*ssa.Alloc); ok {
				okAll, n := true, 0
				for _, rr := range referrers(al) {
					if st, ok := rr.(*ssa.Store); ok && st.Addr == al {
						n++
						if !m.bounded(st.Val, st.Block(), side) {
							okAll = false
						}
					}
				}
				return okAll && n > 0
			}
			// pointer parameter: the pointee at every call site
			if p, ok := x.X.(*ssa.Parameter); ok {
				return m.paramBounded(p, side)
			}
			if fa, ok := x.X.(*ssa.FieldAddr); ok {
				return m.fieldBounded(fieldOf(fa), side)
			}
		}
		return false
	case *ssa.BinOp:
		switch x.Op {
		case token.ADD:
			if side == sideLower {
				if k, isC := constInt(x.Y); isC {
					return m.lowerGE(x.X, at, -k, 0)
				}
				if k, isC := constInt(x.X); isC {
					return m.lowerGE(x.Y, at, -k, 0)
				}
			}
			if side == sideLower && m.tainted[x.X] && m.tainted[x.Y] {
				// two numbers from outside, both >= 0: their sum is >= 0 only if it cannot wrap round — both are bounded
				// above as well, or the sum was compared with one of its addends (`if end < start`) on the way here
				if m.bounded(x.X, at, sideLower) && m.bounded(x.Y, at, sideLower) {
					if (m.bounded(x.X, at, sideUpper) && m.bounded(x.Y, at, sideUpper)) || wrapGuarded(x, at) {
						return true
					}
				}
				return false
			}
			return m.bounded(x.X, at, side) && m.bounded(x.Y, at, side)
		case token.SUB:
			if side == sideUpper {
				return m.bounded(x.X, at, sideUpper) && m.bounded(x.Y, at, sideLower)
			}
			// c - y >= 0 when y <= c
			if k, isC := constInt(x.X); isC {
				if ub, ok := constUpper(x.Y); ok && ub <= k {
					return true
				}
			}
			if k, isC := constInt(x.Y); isC {
				return m.lowerGE(x.X, at, k, 0)
			}
			return false
		case token.MUL:
			return m.bounded(x.X, at, sideUpper) && m.bounded(x.Y, at, sideUpper) && m.bounded(x.X, at, sideLower) && m.bounded(x.Y, at, sideLower)
		case token.QUO:
			if k, isC := constInt(x.Y); isC && k > 0 {
				return m.bounded(x.X, at, side)
			}
			return false
		case token.REM:
			if side == sideUpper {
				return !m.tainted[x.Y] || m.bounded(x.Y, at, sideUpper)
			}
			return m.bounded(x.X, at, sideLower)
		case token.AND:
			for _, o := range []ssa.Value{x.X, x.Y} {
				if !m.tainted[o] {
					if k, isC := constInt(o); !isC || k >= 0 {
						return true
					}
				}
			}
			return false
		case token.SHR:
			return m.bounded(x.X, at, side)
		}
		return false
	case *ssa.Phi:
		for i, e := range x.Edges {
			pred := x.Block().Preds[i]
			if !m.tainted[e] {
				// a server-side length is never negative, but `length - 1` is when the value is empty: a clamp to the
				// last position needs the length to be at least 1 there
				if side == sideLower && !m.lowerGE(e, pred, 0, 0) {
					return false
				}
				continue
			}
			// edge condition pred -> phi block
			idx := 0
			if len(pred.Succs) == 2 && pred.Succs[1] == x.Block() {
				idx = 1
			}
			if len(pred.Succs) == 2 && pred.Succs[0] != pred.Succs[1] && m.guardEstablishes(pred, idx, e, side) {
				continue
			}
			if !m.bounded(e, pred, side) {
				return false
			}
		}
		return true
	case *ssa.Parameter:
		return m.paramBounded(x, side)
	case *ssa.Extract:
		if call, ok := x.Tuple.(*ssa.Call); ok {
			// a companion `ok` result that this use is guarded by (`w, ok := parse(…); if !ok { return }; use(w)`): only
			// the returns on which ok can be true count
			okIdx := -1
			for _, r := range referrers(call) {
				e2, isEx := r.(*ssa.Extract)
				if !isEx || e2 == x {
					continue
				}
				if bt, isB := e2.Type().Underlying().(*types.Basic); !isB || bt.Kind() != types.Bool {
					continue
				}
				for b := at; b != nil && b.Idom() != nil; b = b.Idom() {
					d := b.Idom()
					ifi, isIf := d.Instrs[len(d.Instrs)-1].(*ssa.If)
					if !isIf {
						continue
					}
					cond, neg := ifi.Cond, false
					for {
						u, isU := cond.(*ssa.UnOp)
						if !isU || u.Op != token.NOT {
							break
						}
						cond, neg = u.X, !neg
					}
					if cond != ssa.Value(e2) {
						continue
					}
					for i, s := range d.Succs {
						if (s == b || s.Dominates(b)) && len(s.Preds) == 1 && ((i == 0) != neg) {
							okIdx = e2.Index
						}
					}
				}
			}
			okAll, n := true, 0
			for _, g := range m.c.CalleesData(call) {
				if !m.c.InPkg(g) || len(g.Blocks) == 0 {
					continue
				}
				n++
				for _, b := range g.Blocks {
					if ret, ok := b.Instrs[len(b.Instrs)-1].(*ssa.Return); ok && x.Index < len(ret.Results) {
						if okIdx >= 0 && okIdx < len(ret.Results) && !mayBeTrueAt(ret.Results[okIdx], b) {
							continue // a failure return: the caller does not use the value
						}
						if !m.bounded(ret.Results[x.Index], b, side) {
							okAll = false
						}
					}
				}
			}
			return okAll && n > 0
		}
		return false
	case *ssa.Call:
		if b, ok := x.Call.Value.(*ssa.Builtin); ok && (b.Name() == "min" || b.Name() == "max") {
			anyOK := false
			allOK := true
			for _, a := range x.Call.Args {
				if m.bounded(a, at, side) {
					anyOK = true
				} else {
					allOK = false
				}
			}
			if (b.Name() == "min" && side == sideUpper) || (b.Name() == "max" && side == sideLower) {
				return anyOK
			}
			return allOK
		}
		okAll, n := true, 0
		for _, g := range m.c.CalleesData(x) {
			if !m.c.InPkg(g) || len(g.Blocks) == 0 {
				continue
			}
			n++
			for _, b := range g.Blocks {
				if ret, ok := b.Instrs[len(b.Instrs)-1].(*ssa.Return); ok && len(ret.Results) > 0 {
					if !m.bounded(ret.Results[0], b, side) {
						okAll = false
					}
				}
			}
		}
		return okAll && n > 0
	case *ssa.Field:
		return m.fieldBounded(fieldOf(x), side)
	}
	return false
}

// mayBeTrueAt: the boolean v (a constant, a merge of constants, or a named result read at the return in block b) can be
// true there. For a named result: some store of a value other than the constant false can reach b.
func mayBeTrueAt(v ssa.Value, b *ssa.BasicBlock) bool {
	for _, leaf := range phiLeaves(v, map[ssa.Value]bool{}) {
		if k, ok := leaf.(*ssa.Const); ok && k.Value != nil {
			if k.Value.String() == "true" {
				return true
			}
			continue
		}
		u, ok := leaf.(*ssa.UnOp)
		if !ok || u.Op != token.MUL {
			return true
		}
		al, ok := u.X.(*ssa.Alloc)
		if !ok {
			return true
		}
		for _, r := range referrers(al) {
			st, ok := r.(*ssa.Store)
			if !ok || st.Addr != ssa.Value(al) {
				if _, isLoad := r.(*ssa.UnOp); !isLoad {
					if _, isSt := r.(*ssa.Store); !isSt {
						return true // escapes
					}
				}
				continue
			}
			if k, isC := st.Val.(*ssa.Const); isC && k.Value != nil && k.Value.String() == "false" {
				continue
			}
			if st.Block() == b || reachableFrom(st.Block(), nil)[b] {
				return true
			}
		}
	}
	return false
}

// lowerGE: v >= c on every path (c is a small constant; c <= 0 follows from v >= 0).
func (m *a8Model) lowerGE(v ssa.Value, at *ssa.BasicBlock, c int64, depth int) bool {
	if depth > 6 {
		return false
	}
	if !m.tainted[v] {
		if k, isC := constInt(v); isC {
			return k >= c
		}
		// untainted lengths/counts are >= 0; len-1 >= -1
		if bo, ok := v.(*ssa.BinOp); ok && (bo.Op == token.SUB || bo.Op == token.ADD) {
			if k, isC := constInt(bo.Y); isC {
				if bo.Op == token.SUB {
					return m.lowerGE(bo.X, at, c+k, depth+1)
				}
				return m.lowerGE(bo.X, at, c-k, depth+1)
			}
		}
		if c <= 0 {
			return true
		}
		// a positive lower bound of a length: a multiple of a length that is at least 1, every way into a merge, or a
		// dominating test of the length itself (`if length == 0 { return }`)
		switch x := v.(type) {
		case *ssa.BinOp:
			if k, isC := constInt(x.Y); isC && x.Op == token.MUL && k > 0 {
				return m.lowerGE(x.X, at, (c+k-1)/k, depth+1)
			}
		case *ssa.Convert:
			return m.lowerGE(x.X, at, c, depth+1)
		case *ssa.Phi:
			for i, e := range x.Edges {
				if !m.lowerGE(e, x.Block().Preds[i], c, depth+1) {
					return false
				}
			}
			return true
		}
		return m.guardedGEx(v, at, c, true)
	}
	if c <= 0 && m.bounded(v, at, sideLower) {
		return true
	}
	if c > 0 && m.guardedGE(v, at, c) {
		return true
	}
	switch x := v.(type) {
	case *ssa.BinOp:
		if k, isC := constInt(x.Y); isC {
			switch x.Op {
			case token.ADD:
				return m.lowerGE(x.X, at, c-k, depth+1)
			case token.SUB:
				return m.lowerGE(x.X, at, c+k, depth+1)
			}
		}
	case *ssa.Convert:
		return m.lowerGE(x.X, at, c, depth+1)
	case *ssa.Phi:
		for i, e := range x.Edges {
			pred := x.Block().Preds[i]
			idx := 0
			if len(pred.Succs) == 2 && pred.Succs[1] == x.Block() {
				idx = 1
			}
			if c <= 0 && len(pred.Succs) == 2 && pred.Succs[0] != pred.Succs[1] && m.guardEstablishes(pred, idx, e, sideLower) {
				continue
			}
			if !m.lowerGE(e, pred, c, depth+1) {
				return false
			}
		}
		return true
	}
	return false
}

// guardedGE: every path to blk passes an edge on which v >= c (c > 0) holds by comparison with a constant.
func (m *a8Model) guardedGE(v ssa.Value, blk *ssa.BasicBlock, c int64) bool {
	return m.guardedGEx(v, blk, c, false)
}

// guardedGEx: nonneg — v is known not to be negative (a length or count), so `v != 0` means v >= 1.
func (m *a8Model) guardedGEx(v ssa.Value, blk *ssa.BasicBlock, c int64, nonneg bool) bool {
	rv := a8root(v)
	est := func(d *ssa.BasicBlock, idx int) bool {
		ifi, ok := d.Instrs[len(d.Instrs)-1].(*ssa.If)
		if !ok {
			return false
		}
		bo, ok := ifi.Cond.(*ssa.BinOp)
		if !ok || !sameA8(a8root(bo.X), rv) {
			return false
		}
		k, isC := constInt(bo.Y)
		if !isC {
			return false
		}
		onTrue := idx == 0
		switch bo.Op {
		case token.LSS: // v < k false  => v >= k
			return !onTrue && k >= c
		case token.LEQ: // v <= k false => v >= k+1
			return !onTrue && k+1 >= c
		case token.GEQ:
			return onTrue && k >= c
		case token.GTR:
			return onTrue && k+1 >= c
		case token.EQL:
			return nonneg && !onTrue && k == 0 && c <= 1
		case token.NEQ:
			return nonneg && onTrue && k == 0 && c <= 1
		}
		return false
	}
	seen := map[*ssa.BasicBlock]bool{}
	var walk func(b *ssa.BasicBlock) bool
	walk = func(b *ssa.BasicBlock) bool {
		if seen[b] {
			return true
		}
		seen[b] = true
		if len(b.Preds) == 0 {
			return false
		}
		if in, ok := rv.(ssa.Instruction); ok && in.Block() == b {
			return false
		}
		for _, pr := range b.Preds {
			idx := 0
			if len(pr.Succs) == 2 && pr.Succs[1] == b {
				idx = 1
			}
			if len(pr.Succs) == 2 && pr.Succs[0] != pr.Succs[1] && est(pr, idx) {
				continue
			}
			if !walk(pr) {
				return false
			}
		}
		return true
	}
	return walk(blk)
}

// constUpper: a constant upper bound of a non-negative expression (x % k, x & mask, small conversions).
func constUpper(v ssa.Value) (int64, bool) {
	switch x := v.(type) {
	case *ssa.Const:
		return constInt(x)
	case *ssa.BinOp:
		switch x.Op {
		case token.REM:
			if k, isC := constInt(x.Y); isC && k > 0 {
				return k - 1, true
			}
		case token.AND:
			if k, isC := constInt(x.Y); isC && k >= 0 {
				return k, true
			}
			if k, isC := constInt(x.X); isC && k >= 0 {
				return k, true
			}
		}
	case *ssa.Convert:
		if ub, ok := constUpper(x.X); ok {
			return ub, true
		}
		if b, ok := x.Type().Underlying().(*types.Basic); ok {
			switch b.Kind() {
			case types.Uint8:
				return 255, true
			case types.Bool:
				return 1, true
			}
		}
	}
	return 0, false
}

func (m *a8Model) paramBounded(p *ssa.Parameter, side int) bool {
	fn := p.Parent()
	idx := -1
	for i, pp := range fn.Params {
		if pp == p {
			idx = i
		}
	}
	sites := m.callers[fn]
	if idx < 0 || len(sites) == 0 {
		return false
	}
	for _, cs := range sites {
		args := cs.Common().Args
		if idx >= len(args) {
			return false
		}
		a := args[idx]
		if _, isPtr := a.Type().Underlying().(*types.Pointer); isPtr {
			// pointee: the cell's stores
			ok := true
			var cells []ssa.Value
			if phi, isPhi := a.(*ssa.Phi); isPhi {
				cells = append(cells, phi.Edges...)
			} else {
				cells = []ssa.Value{a}
			}
			for _, cv := range cells {
				al, isAl := cv.(*ssa.Alloc)
				if !isAl {
					continue
				}
				for _, rr := range referrers(al) {
					if st, isSt := rr.(*ssa.Store); isSt && st.Addr == al && !m.bounded(st.Val, cs.Block(), side) {
						ok = false
					}
				}
			}
			if !ok {
				return false
			}
			continue
		}
		if !m.bounded(a, cs.Block(), side) {
			return false
		}
	}
	return true
}

func (m *a8Model) fieldBounded(f *types.Var, side int) bool {
	key := fmt.Sprintf("field/%p/%d", f, side)
	switch m.memo[key] {
	case 1, 3:
		return true
	case 2:
		return false
	}
	m.memo[key] = 3
	ok, n := true, 0
	for _, fn := range m.c.SrcFuncs() {
		for _, in := range instrsOf(fn) {
			st, isSt := in.(*ssa.Store)
			if !isSt {
				continue
			}
			if fa, isFa := st.Addr.(*ssa.FieldAddr); isFa && fieldOf(fa) == f {
				n++
				if !m.bounded(st.Val, st.Block(), side) {
					ok = false
				}
			}
		}
	}
	if ok && n > 0 {
		m.memo[key] = 1
		return true
	}
	m.memo[key] = 2
	return false
}

const textA8 = "A8 (client-controlled integers): a number that comes from a command argument or is parsed from client/stored text reaches an allocation size (make length/capacity/map hint), a slice bound or index, or a shift count only where dominating comparisons (on every path; through clamps, parameters — at every call site —, fields and pointer-to-int arguments) bound it above by an untainted quantity and below by zero: otherwise one command can crash the process (makeslice/index panic) or exhaust its memory; and it is incremented by a positive constant (`stop++`) only where it is bounded above — the largest integer wraps round to the smallest and the loop it limits never ends; and it is negated only where it cannot be the smallest integer (a dominating `== MinInt` / range test, or the operand is `v+1`): `index = -index` leaves that one value negative and the range test that follows lets it through; and it is multiplied by a large constant (seconds into nanoseconds) only where it is bounded above — the product of an unchecked lifetime wraps round into a deadline in the past, the key is gone at once and the command answers as if it had set the deadline"

func ruleA8(c *Ctx) {
	c.S.Rule("A8-bounds", textA8, 10)
	m := c.a8()
	type sink struct {
		in    ssa.Instruction
		v     ssa.Value
		kind  string
		sides int
	}
	var sinks []sink
	a8IntBits = 64
	if c.Pkg.TypesSizes != nil {
		a8IntBits = c.Pkg.TypesSizes.Sizeof(types.Typ[types.Int]) * 8
	}
	for _, fn := range c.SrcFuncs() {
		if why := a8OutOfScope(c, fn); why != "" {
			c.S.Trivial("A8-bounds", fnName(fn)+":out-of-scope", c.Pos(fn.Pos()), "not analysed: "+why)
			continue
		}
		for _, in := range instrsOf(fn) {
			switch x := in.(type) {
			case *ssa.MakeSlice:
				if m.tainted[x.Len] {
					sinks = append(sinks, sink{in, x.Len, "make length", sideUpper | sideLower})
				}
				if x.Cap != x.Len && m.tainted[x.Cap] {
					sinks = append(sinks, sink{in, x.Cap, "make capacity", sideUpper | sideLower})
				}
			case *ssa.MakeMap:
				if x.Reserve != nil && m.tainted[x.Reserve] {
					sinks = append(sinks, sink{in, x.Reserve, "map size hint", sideUpper})
				}
			case *ssa.IndexAddr:
				if m.tainted[x.Index] {
					sinks = append(sinks, sink{in, x.Index, "index", sideUpper | sideLower})
				}
			case *ssa.Index:
				if m.tainted[x.Index] {
					sinks = append(sinks, sink{in, x.Index, "index", sideUpper | sideLower})
				}
			case *ssa.Slice:
				for _, b := range []ssa.Value{x.Low, x.High, x.Max} {
					if b != nil && m.tainted[b] {
						sinks = append(sinks, sink{in, b, "slice bound", sideUpper | sideLower})
					}
				}
			case *ssa.UnOp:
				// -v of the smallest integer is the smallest integer again: an index normalised by `index = -index` and then
				// compared with a count passes the test for the one value that has no positive counterpart
				if x.Op == token.SUB && m.tainted[x.X] {
					if b, ok := x.X.Type().Underlying().(*types.Basic); ok && b.Info()&types.IsInteger != 0 && b.Info()&types.IsUnsigned == 0 {
						sinks = append(sinks, sink{in, x.X, "negation", sideNegate})
					}
				}
			case *ssa.BinOp:
				if (x.Op == token.SHL || x.Op == token.SHR) && m.tainted[x.Y] {
					sinks = append(sinks, sink{in, x.Y, "shift count", sideUpper | sideLower})
				}
				// v + c (c > 0) wraps round to the smallest integer when v is the largest: `stop++` behind a clamp that was
				// removed makes `for stop < count` run for ever. (The mirror image, v - c, is not a sink: the code counts
				// down in loops whose guard is on another variable, which this analysis does not relate.)
				if x.Op == token.ADD && m.tainted[x.X] {
					if k, isC := constInt(x.Y); isC && k > 0 {
						sinks = append(sinks, sink{in, x.X, "increment", sideUpper})
					}
				}
				// v * k with a large constant (a lifetime in seconds turned into nanoseconds): wraps round for v > MaxInt/k,
				// and a deadline computed from it lies in the past
				if x.Op == token.MUL {
					v, kv := x.X, x.Y
					if _, isC := constInt(v); isC {
						v, kv = kv, v
					}
					if k, isC := constInt(kv); isC && (k >= 1000 || k <= -1000) && m.tainted[v] {
						if b, ok := v.Type().Underlying().(*types.Basic); ok && b.Info()&types.IsInteger != 0 {
							sinks = append(sinks, sink{in, v, "multiplication by " + fmt.Sprint(k), sideUpper})
						}
					}
				}

			}
		}
	}
	ord := map[string]int{}
	for _, s := range sinks {
		fn := s.in.Parent()
		ord[fnName(fn)+s.kind]++
		key := fmt.Sprintf("%s:%s#%d", fnName(fn), s.kind, ord[fnName(fn)+s.kind])
		var missing []string
		if s.sides&sideUpper != 0 && !m.bounded(s.v, s.in.Block(), sideUpper) {
			missing = append(missing, "above")
		}
		if s.sides&sideLower != 0 && !m.bounded(s.v, s.in.Block(), sideLower) {
			// unsigned operands are non-negative by type
			if b, ok := s.v.Type().Underlying().(*types.Basic); !ok || b.Info()&types.IsUnsigned == 0 {
				missing = append(missing, "below (>= 0)")
			}
		}
		src := m.srcDesc[s.v]
		if src == "" {
			src = "client-controlled number"
		}
		if s.sides == sideNegate {
			okNeg := m.bounded(s.v, s.in.Block(), sideLower) || m.guardedGEx(s.v, s.in.Block(), math.MinInt64+1, false) || excludesMin(s.v, s.in.Block())
			if bo, isBo := s.v.(*ssa.BinOp); isBo && bo.Op == token.ADD && !okNeg {
				if k, isC := constInt(bo.Y); isC && k > 0 {
					okNeg = true // v+k with k > 0 (an increment sink of its own) is above the smallest integer
				}
			}
			if bo, isBo := s.v.(*ssa.BinOp); isBo && (bo.Op == token.REM || bo.Op == token.QUO || bo.Op == token.AND) && !okNeg {
				okNeg = true // a remainder, quotient by a constant or masked value is not the smallest integer
			}
			if smallInt(s.v.Type()) {
				okNeg = true
			}
			if okNeg {
				c.S.OK("A8-bounds", key, c.Pos(c.InstrPos(s.in)), fmt.Sprintf("negated %s cannot be the smallest integer", src))
			} else {
				c.S.Bad("A8-bounds", key, c.Pos(c.InstrPos(s.in)), fmt.Sprintf("%s negates a number derived from %s that can be the smallest integer (no dominating comparison excludes it, and it is not a sum with a positive constant): the result is negative again and passes the range test that follows", fnName(fn), src))
			}
			continue
		}
		if len(missing) == 0 {
			c.S.OK("A8-bounds", key, c.Pos(c.InstrPos(s.in)), fmt.Sprintf("%s derived from %s is bounded on every path", s.kind, src))
		} else {
			c.S.Bad("A8-bounds", key, c.Pos(c.InstrPos(s.in)), fmt.Sprintf("%s in %s is derived from %s and is not bounded %s on some path (including paths through its callers): a single request can panic the command goroutine (which has no recover) or make it allocate without limit", s.kind, fnName(fn), src, strings.Join(missing, " and ")))
		}
	}
	_ = sort.Strings
}

// excludesMin: on the way to blk a test of v (through conversions; two loads of one address count as one value) against
// a constant leaves out the smallest integer: `v == MinInt` / `v != MinInt` on the right edge, or v >= k, v > k.
var a8IntBits int64 = 64 // width of int in the configuration being analysed (set by the A8 rule)

func excludesMin(v ssa.Value, blk *ssa.BasicBlock) bool {
	root := func(x ssa.Value) ssa.Value {
		for i := 0; i < 6; i++ {
			switch y := x.(type) {
			case *ssa.Convert:
				x = y.X
			case *ssa.ChangeType:
				x = y.X
			default:
				return x
			}
		}
		return x
	}
	same := func(a, b ssa.Value) bool {
		a, b = root(a), root(b)
		if a == b {
			return true
		}
		ua, ok1 := a.(*ssa.UnOp)
		ub, ok2 := b.(*ssa.UnOp)
		return ok1 && ok2 && ua.Op == token.MUL && ub.Op == token.MUL && ua.X == ub.X
	}
	isMin := func(k int64, t types.Type) bool {
		if k == math.MinInt64 {
			return true
		}
		if b, ok := t.Underlying().(*types.Basic); ok && (b.Kind() == types.Int32 || (b.Kind() == types.Int && a8IntBits == 32)) {
			return k == math.MinInt32
		}
		return false
	}
	for d := blk; d != nil; d = d.Idom() {
		p := d.Idom()
		if p == nil {
			break
		}
		ifi, ok := p.Instrs[len(p.Instrs)-1].(*ssa.If)
		if !ok || len(p.Succs) != 2 || p.Succs[0] == p.Succs[1] {
			continue
		}
		idx := -1
		for i, sc := range p.Succs {
			if (sc == d || sc.Dominates(d)) && len(sc.Preds) == 1 {
				idx = i
			}
		}
		if idx < 0 {
			continue
		}
		bo, ok := ifi.Cond.(*ssa.BinOp)
		if !ok {
			continue
		}
		x, y := bo.X, bo.Y
		op := bo.Op
		if _, isC := constInt(x); isC {
			x, y = y, x
			switch op {
			case token.LSS:
				op = token.GTR
			case token.GTR:
				op = token.LSS
			case token.LEQ:
				op = token.GEQ
			case token.GEQ:
				op = token.LEQ
			}
		}
		k, isC := constInt(y)
		if !isC || !same(x, v) {
			continue
		}
		onTrue := idx == 0
		switch op {
		case token.EQL:
			if !onTrue && isMin(k, x.Type()) {
				return true
			}
		case token.NEQ:
			if onTrue && isMin(k, x.Type()) {
				return true
			}
		case token.LSS, token.LEQ:
			if !onTrue && (k > math.MinInt64 || op == token.LEQ) {
				return true
			}
		case token.GEQ, token.GTR:
			if onTrue && (k > math.MinInt64 || op == token.GTR) {
				return true
			}
		}
	}
	return false
}

// wrapGuarded: on the way to blk the sum was compared with one of its addends and found not smaller (the test that
// catches a signed sum of two non-negative numbers that wrapped round)
func wrapGuarded(sum *ssa.BinOp, blk *ssa.BasicBlock) bool {
	isAddend := func(v ssa.Value) bool {
		return v == sum.X || v == sum.Y || sameValue(v, sum.X) || sameValue(v, sum.Y)
	}
	isSum := func(v ssa.Value) bool {
		if v == ssa.Value(sum) {
			return true
		}
		bo, ok := v.(*ssa.BinOp)
		return ok && bo.Op == token.ADD && ((sameValue(bo.X, sum.X) || bo.X == sum.X) && (sameValue(bo.Y, sum.Y) || bo.Y == sum.Y))
	}
	for d := blk; d != nil; d = d.Idom() {
		p := d.Idom()
		if p == nil {
			break
		}
		ifi, ok := p.Instrs[len(p.Instrs)-1].(*ssa.If)
		if !ok || len(p.Succs) != 2 {
			continue
		}
		idx := -1
		for i, sc := range p.Succs {
			if (sc == d || sc.Dominates(d)) && len(sc.Preds) == 1 {
				idx = i
			}
		}
		// the edge may also lead straight into a merge that blk is (the untouched value of an if/else-if chain)
		if idx < 0 {
			for i, sc := range p.Succs {
				if sc == blk {
					idx = i
				}
			}
		}
		if idx < 0 {
			continue
		}
		bo, ok := ifi.Cond.(*ssa.BinOp)
		if !ok {
			continue
		}
		onTrue := idx == 0
		switch {
		case isSum(bo.X) && isAddend(bo.Y):
			if (bo.Op == token.LSS && !onTrue) || (bo.Op == token.GEQ && onTrue) {
				return true
			}
		case isAddend(bo.X) && isSum(bo.Y):
			if (bo.Op == token.GTR && !onTrue) || (bo.Op == token.LEQ && onTrue) {
				return true
			}
		}
	}
	return false
}

// disjunctBoundsAbove: g returns a boolean that is a disjunction of comparisons (every constant that can reach the
// result is true), and one of the disjuncts is `p > x` / `p >= x` (or mirrored) with x not depending on p: when g
// answers false, p is at most x.
func disjunctBoundsAbove(g *ssa.Function, p *ssa.Parameter) bool {
	if g.Signature.Results().Len() != 1 {
		return false
	}
	if bt, ok := g.Signature.Results().At(0).Type().Underlying().(*types.Basic); !ok || bt.Kind() != types.Bool {
		return false
	}
	var disjuncts []*ssa.BinOp
	okShape := true
	var collect func(v ssa.Value, d int)
	collect = func(v ssa.Value, d int) {
		if d > 6 {
			okShape = false
			return
		}
		switch x := v.(type) {
		case *ssa.Const:
			if x.Value == nil || x.Value.String() != "true" {
				okShape = false // a conjunction: false does not tell which part failed
			}
		case *ssa.BinOp:
			disjuncts = append(disjuncts, x)
		case *ssa.Phi:
			for i, e := range x.Edges {
				collect(e, d+1)
				// the edge was taken on the false side of the branch before it: that branch's comparison is a disjunct too
				pred := x.Block().Preds[i]
				if ifi, ok := pred.Instrs[len(pred.Instrs)-1].(*ssa.If); ok {
					if bo, ok := ifi.Cond.(*ssa.BinOp); ok {
						disjuncts = append(disjuncts, bo)
					}
				}
			}
		default:
			okShape = false
		}
	}
	n := 0
	for _, b := range g.Blocks {
		if ret, ok := b.Instrs[len(b.Instrs)-1].(*ssa.Return); ok && len(ret.Results) == 1 {
			n++
			collect(ret.Results[0], 0)
		}
	}
	// every branch of g must be one of the disjuncts' short-circuit tests (no other control flow)
	for _, b := range g.Blocks {
		if ifi, ok := b.Instrs[len(b.Instrs)-1].(*ssa.If); ok {
			if _, isBo := ifi.Cond.(*ssa.BinOp); !isBo {
				okShape = false
			}
		}
	}
	if !okShape || n != 1 {
		return false
	}
	for _, bo := range disjuncts {
		x, y, op := bo.X, bo.Y, bo.Op
		if a8root(y) == ssa.Value(p) {
			x, y = y, x
			switch op {
			case token.LSS:
				op = token.GTR
			case token.LEQ:
				op = token.GEQ
			case token.GTR:
				op = token.LSS
			case token.GEQ:
				op = token.LEQ
			}
		}
		if a8root(x) != ssa.Value(p) || (op != token.GTR && op != token.GEQ) {
			continue
		}
		// the other side does not depend on p
		dep := false
		seen := map[ssa.Value]bool{}
		var uses func(v ssa.Value)
		uses = func(v ssa.Value) {
			if v == nil || seen[v] {
				return
			}
			seen[v] = true
			if v == ssa.Value(p) {
				dep = true
				return
			}
			if in, ok := v.(ssa.Instruction); ok {
				var ops []*ssa.Value
				for _, o := range in.Operands(ops) {
					uses(*o)
				}
			}
		}
		uses(y)
		if !dep {
			return true
		}
	}
	return false
}
