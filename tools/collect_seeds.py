#!/usr/bin/env python3
"""Collects a sub-agent's deliverables (/tmp/seedout_<prop>/mutation<i>.diff, demo<i>_test.go, notes<i>.md) into
/verif/seeded/<prop>-m<i>/ with an initial meta.json (completed by seed_eval.py)."""
import json, os, shutil, sys, re
titles = {json.loads(l)['id']: json.loads(l)['title'] for l in open('/verif/properties.jsonl')}
for prop in sys.argv[1:]:
    src = f'/tmp/seedout_{prop}'
    for i in range(1, 10):
        d = f'{src}/mutation{i}.diff'
        if not os.path.exists(d):
            continue
        dst = f'/verif/seeded/{prop}-m{i}'
        if os.path.exists(dst + '/patch.diff'):
            print('exists', dst); continue
        os.makedirs(dst, exist_ok=True)
        shutil.copy(d, dst + '/patch.diff')
        shutil.copy(f'{src}/demo{i}_test.go', dst + '/demo_test.go')
        notes = open(f'{src}/notes{i}.md').read() if os.path.exists(f'{src}/notes{i}.md') else ''
        open(dst + '/notes.md', 'w').write(notes)
        demo = open(dst + '/demo_test.go').read()
        m = re.search(r'func (TestSeed\w*)\(', demo)
        meta = {'property': prop, 'title': titles[prop],
                'origin': 'independent sub-agent given only the property text and a scratch worktree',
                'test': m.group(1) if m else f'TestSeed{i}', 'go_test_flags': '', 'demo_runs': 1,
                'needs_to_manifest': 'see notes.md'}
        json.dump(meta, open(dst + '/meta.json', 'w'), indent=1)
        print('collected', dst, meta['test'])
