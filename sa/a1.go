package main

// A1 — Req() fix-point: which lock classes must already be held when a function is entered,
// because it (or something it calls without acquiring) touches data guarded by them.

import (
	"fmt"
	"go/types"
	"sort"
	"strings"

	"golang.org/x/tools/go/ssa"
)

type reqKey struct {
	cls int
	acc *Access
}
type reqWit struct {
	site   ssa.Instruction // nil: the access is in this very function
	callee *ssa.Function
}

type ReqModel struct {
	m        *Models
	lm       *LockModel
	gt       *GuardTable
	accesses map[*ssa.Function][]*Access
	req      map[*ssa.Function]map[reqKey]reqWit
	roots    []*ssa.Function
	rootWhy  map[*ssa.Function]string
	calls    map[*ssa.Function][]callSite
	callers  map[*ssa.Function]int
}

type callSite struct {
	in      ssa.Instruction
	callees []*ssa.Function
	isGo    bool
	isDefer bool
	cut     bool
}

var reqModels = map[*Models]*ReqModel{}

func (m *Models) Req() *ReqModel {
	if r, ok := reqModels[m]; ok {
		return r
	}
	p := m.p
	rm := &ReqModel{m: m, lm: m.Locks(), gt: m.Guards(), accesses: map[*ssa.Function][]*Access{},
		req: map[*ssa.Function]map[reqKey]reqWit{}, rootWhy: map[*ssa.Function]string{},
		calls: map[*ssa.Function][]callSite{}, callers: map[*ssa.Function]int{}}
	reqModels[m] = rm
	lm := rm.lm

	goTargets := map[*ssa.Function]bool{}
	for _, fn := range p.SrcFuncs() {
		rm.accesses[fn] = p.Accesses(fn)
		rm.req[fn] = map[reqKey]reqWit{}
		for _, in := range instrsOf(fn) {
			c, ok := in.(ssa.CallInstruction)
			if !ok {
				continue
			}
			cs := callSite{in: in}
			_, cs.isGo = in.(*ssa.Go)
			_, cs.isDefer = in.(*ssa.Defer)
			cs.cut = lm.handlerDynSites[c]
			seen := map[*ssa.Function]bool{}
			for _, g := range p.Callees(c) {
				if lm.fl[g] != nil && !seen[g] {
					seen[g] = true
					cs.callees = append(cs.callees, g)
				}
			}
			// closures handed to functions outside the package are assumed to be invoked synchronously
			external := len(cs.callees) == 0
			if external {
				for _, a := range c.Common().Args {
					if mc, ok := stripValue(a).(*ssa.MakeClosure); ok {
						if g, ok := mc.Fn.(*ssa.Function); ok && lm.fl[g] != nil && !seen[g] {
							seen[g] = true
							cs.callees = append(cs.callees, g)
						}
					}
				}
			}
			if len(cs.callees) == 0 {
				continue
			}
			rm.calls[fn] = append(rm.calls[fn], cs)
			for _, g := range cs.callees {
				if cs.isGo {
					goTargets[g] = true
				} else if !cs.cut {
					rm.callers[g]++
				}
			}
		}
	}
	// direct requirements
	for _, fn := range p.SrcFuncs() {
		for _, a := range rm.accesses[fn] {
			g, ok := rm.gt.lookup(a)
			if !ok {
				continue
			}
			need := false
			switch g.mode {
			case gLocked:
				need = true
			case gWriteLocked:
				need = a.Write
			}
			if !need || a.Atomic && g.mode != gLocked {
				continue
			}
			if a.Base != nil && isFresh(a.Base) {
				continue
			}
			if !lm.Reachable(a.In) {
				continue
			}
			if g.class != 31 && lm.LocallyHeld(a.In).has(g.class) {
				continue
			}
			rm.req[fn][reqKey{g.class, a}] = reqWit{}
		}
	}
	// propagate to callers
	for changed := true; changed; {
		changed = false
		for _, fn := range p.SrcFuncs() {
			for _, cs := range rm.calls[fn] {
				if cs.isGo || cs.cut {
					continue
				}
				held := lm.LocallyHeld(cs.in)
				c := cs.in.(ssa.CallInstruction)
				for _, g := range cs.callees {
					for k := range rm.req[g] {
						if k.cls != 31 && held.has(k.cls) {
							continue
						}
						if _, has := rm.req[fn][k]; has {
							continue
						}
						if k.cls != 31 && rm.freshOwnerArg(c, k.cls) {
							continue
						}
						rm.req[fn][k] = reqWit{site: cs.in, callee: g}
						changed = true
					}
				}
			}
		}
	}
	// roots
	hs, _ := m.Handlers()
	isHandler := map[*ssa.Function]string{}
	for t, f := range hs {
		if isHandler[f] == "" || t < isHandler[f] {
			isHandler[f] = t
		}
	}
	for _, fn := range p.SrcFuncs() {
		why := ""
		switch {
		case isHandler[fn] != "":
			why = "command handler (" + isHandler[fn] + ")"
		case goTargets[fn]:
			why = "goroutine entry"
		case fn.Parent() == nil && fn.Object() != nil && fn.Object().Exported() && fn.Synthetic == "":
			why = "exported API"
		}
		if why != "" {
			rm.roots = append(rm.roots, fn)
			rm.rootWhy[fn] = why
		}
	}
	return rm
}

// freshOwnerArg: the call passes a not-yet-shared object whose own mutex is class cls.
func (rm *ReqModel) freshOwnerArg(c ssa.CallInstruction, cls int) bool {
	for _, a := range c.Common().Args {
		if !isFresh(a) && !freshEverywhere(rm.m.p, a, 0) {
			continue
		}
		st, ok := deref(a.Type()).Underlying().(*types.Struct)
		if !ok {
			continue
		}
		for i := 0; i < st.NumFields(); i++ {
			if idx, ok := rm.lm.byVar[st.Field(i)]; ok && idx == cls {
				return true
			}
		}
	}
	return false
}

// chain renders root -> ... -> access for a requirement.
func (rm *ReqModel) chain(fn *ssa.Function, k reqKey) string {
	var parts []string
	cur := fn
	for i := 0; i < 30; i++ {
		w, ok := rm.req[cur][k]
		if !ok {
			break
		}
		if w.site == nil {
			parts = append(parts, fmt.Sprintf("%s touches %s (%s) at %s", fnName(cur), k.acc.Name, k.acc.Kind, rm.m.p.Pos(rm.m.p.InstrPos(k.acc.In))))
			break
		}
		parts = append(parts, fmt.Sprintf("%s [%s]", fnName(cur), rm.m.p.Pos(rm.m.p.InstrPos(w.site))))
		cur = w.callee
	}
	return strings.Join(parts, " -> ")
}

func (rm *ReqModel) className(cls int) string {
	if cls == 31 {
		return "no-lock-protects-this-global"
	}
	return rm.lm.names[cls]
}

// sortedReq returns the requirements of fn in a stable order.
func (rm *ReqModel) sortedReq(fn *ssa.Function) []reqKey {
	var ks []reqKey
	for k := range rm.req[fn] {
		ks = append(ks, k)
	}
	sort.Slice(ks, func(i, j int) bool {
		a, b := ks[i], ks[j]
		if a.cls != b.cls {
			return a.cls < b.cls
		}
		if a.acc.In.Pos() != b.acc.In.Pos() {
			return a.acc.In.Pos() < b.acc.In.Pos()
		}
		return a.acc.Name < b.acc.Name
	})
	return ks
}

// accKey is the stable construct id of an access: function + field + r/w (+ ordinal among equals).
func (rm *ReqModel) accKey(a *Access) string {
	n := 0
	for _, b := range rm.accesses[a.Fn] {
		if b == a {
			break
		}
		if b.Name == a.Name && b.Write == a.Write && b.Kind == a.Kind {
			n++
		}
	}
	s := fmt.Sprintf("%s:%s:%s:%s", fnName(a.Fn), a.Name, a.Kind, a.rw())
	if n > 0 {
		s += fmt.Sprintf("#%d", n+1)
	}
	return s
}

// viaOtherRoot: the witness chain of requirement k at root r passes through another root.
func (rm *ReqModel) viaOtherRoot(r *ssa.Function, k reqKey) bool {
	cur := r
	for i := 0; i < 40; i++ {
		w, ok := rm.req[cur][k]
		if !ok || w.site == nil {
			return false
		}
		cur = w.callee
		if cur != r && rm.rootWhy[cur] != "" {
			return true
		}
	}
	return false
}
