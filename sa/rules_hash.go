package main

// R-C13-hashkey: maps keyed by a type that contains an interface (respValue{data any}) compile with any key, and panic
// at run time ("hash of unhashable type") when the interface holds a slice or a map. The request parser builds such
// maps (RESP3 sets, maps, attribute maps) from what the client sends, so every key that reaches a map operation in code
// the connection goroutines run must be hashable by construction: its interface field is made from a concrete type
// without slices/maps/functions, or it is the result of a sanitiser all of whose returns are, or it is a key taken out
// of an existing map.

import (
	"fmt"
	"go/token"
	"go/types"
	"strings"

	"golang.org/x/tools/go/ssa"
)

const textHashKey = "R-C13-hashkey: in code reachable from a connection, every key used with a map whose key type contains an interface is hashable by construction — built from a concrete hashable type, returned by a sanitiser whose every return is, or taken from an existing map — never an interface value passed through from the wire: `~1 *0` (a set with an array as member) must not panic the parser with 'hash of unhashable type'"

// containsInterface: the type has an interface somewhere a map key comparison would look at.
func containsInterface(t types.Type, depth int) bool {
	if depth > 4 {
		return false
	}
	switch u := t.Underlying().(type) {
	case *types.Interface:
		return true
	case *types.Struct:
		for i := 0; i < u.NumFields(); i++ {
			if containsInterface(u.Field(i).Type(), depth+1) {
				return true
			}
		}
	case *types.Array:
		return containsInterface(u.Elem(), depth+1)
	}
	return false
}

// staticallyHashable: values of this concrete type can always be hashed.
func staticallyHashable(t types.Type, depth int) bool {
	if depth > 4 {
		return false
	}
	switch u := t.Underlying().(type) {
	case *types.Basic, *types.Pointer, *types.Chan:
		return true
	case *types.Struct:
		for i := 0; i < u.NumFields(); i++ {
			if !staticallyHashable(u.Field(i).Type(), depth+1) {
				return false
			}
		}
		return true
	case *types.Array:
		return staticallyHashable(u.Elem(), depth+1)
	}
	return false // slices, maps, functions, interfaces
}

type hashCtx struct {
	c    *Ctx
	memo map[*ssa.Function]int
}

// hashable: the (struct or interface) value v can be used as a map key without a run-time panic.
func (h *hashCtx) hashable(v ssa.Value, depth int, why *string) bool {
	if depth > 8 {
		*why = "value flow too deep"
		return false
	}
	if !containsInterface(v.Type(), 0) {
		if staticallyHashable(v.Type(), 0) {
			return true
		}
	}
	switch x := v.(type) {
	case *ssa.Const:
		return true
	case *ssa.MakeInterface:
		if staticallyHashable(x.X.Type(), 0) {
			return true
		}
		if containsInterface(x.X.Type(), 0) {
			return h.hashable(x.X, depth+1, why)
		}
		*why = fmt.Sprintf("an interface made from %s", typeString(x.X.Type()))
		return false
	case *ssa.ChangeType:
		return h.hashable(x.X, depth+1, why)
	case *ssa.Phi:
		for _, e := range phiLeaves(x, map[ssa.Value]bool{}) {
			if !h.hashable(e, depth+1, why) {
				return false
			}
		}
		return true
	case *ssa.Extract:
		// the key of a map iteration is a key of an existing map
		if nx, ok := x.Tuple.(*ssa.Next); ok && x.Index == 1 && !nx.IsString {
			return true
		}
		if call, ok := x.Tuple.(*ssa.Call); ok {
			return h.resultHashable(call, x.Index, depth, why)
		}
	case *ssa.Call:
		return h.resultHashable(x, 0, depth, why)
	case *ssa.UnOp:
		if x.Op != token.MUL {
			break
		}
		switch a := x.X.(type) {
		case *ssa.Alloc:
			// a local variable assigned more than once (`k = next(); …; k = normalise(k)`): the one whole-value store
			// that every path to this read passes last
			if sv := reachingStore(x, a); sv != nil {
				return h.hashable(sv, depth+1, why)
			}
			// otherwise: every store into it (whole or field by field) is hashable
			n := 0
			for _, r := range referrers(a) {
				switch rr := r.(type) {
				case *ssa.Store:
					if rr.Addr == ssa.Value(a) {
						n++
						if !h.hashable(rr.Val, depth+1, why) {
							return false
						}
					}
				case *ssa.FieldAddr:
					for _, r2 := range referrers(rr) {
						if st, ok := r2.(*ssa.Store); ok && st.Addr == ssa.Value(rr) {
							n++
							if !h.hashable(st.Val, depth+1, why) && !typeSwitchedHashable(st.Val, st.Block()) {
								return false
							}
						}
					}
				}
			}
			if n == 0 {
				return true // the zero value
			}
			return true
		case *ssa.IndexAddr:
			// an element of the recorded key order of an existing map is a key of that map
			if _, f := loadedField(a.X); f != nil && strings.Contains(strings.ToLower(f.Name()), "order") {
				return true
			}
		}
	case *ssa.Parameter:
		fn := x.Parent()
		idx := -1
		for i, p := range fn.Params {
			if p == x {
				idx = i
			}
		}
		node := h.c.CG.Nodes[fn]
		if node == nil || idx < 0 || len(node.In) == 0 {
			*why = "parameter " + x.Name() + " of a function without visible callers"
			return false
		}
		for _, e := range node.In {
			args := e.Site.Common().Args
			if e.Site.Common().IsInvoke() || idx >= len(args) {
				*why = "parameter " + x.Name() + " through a dynamic call"
				return false
			}
			if !h.hashable(args[idx], depth+2, why) {
				if !strings.Contains(*why, " at ") {
					*why += " at " + h.c.Pos(e.Site.Pos())
				}
				return false
			}
		}
		return true
	case *ssa.Field:
		// a field of a struct value: the interface inside a key that is itself not known to be hashable
		*why = fmt.Sprintf("the %s field of a value that came from elsewhere (%s)", fieldName(x), x.X.Name())
		return false
	}
	if *why == "" {
		*why = fmt.Sprintf("its origin (%T) is not a hashable construction", v)
	}
	return false
}

func fieldName(f *ssa.Field) string {
	if st, ok := f.X.Type().Underlying().(*types.Struct); ok && f.Field < st.NumFields() {
		return st.Field(f.Field).Name()
	}
	return "?"
}

func (h *hashCtx) resultHashable(call *ssa.Call, idx int, depth int, why *string) bool {
	g := call.Call.StaticCallee()
	if g == nil || !h.c.InPkg(g) || g.Blocks == nil {
		*why = "the result of a call that cannot be followed"
		return false
	}
	switch h.memo[g] {
	case 1, 3:
		return true
	case 2:
		*why = "the result of " + fnName(g) + ", which can return a key holding whatever the caller passed"
		return false
	}
	h.memo[g] = 3
	for _, b := range g.Blocks {
		ret, ok := b.Instrs[len(b.Instrs)-1].(*ssa.Return)
		if !ok || idx >= len(ret.Results) {
			continue
		}
		w := ""
		if !h.hashable(ret.Results[idx], depth+1, &w) {
			h.memo[g] = 2
			*why = fmt.Sprintf("the result of %s, which can return %s", fnName(g), w)
			return false
		}
	}
	h.memo[g] = 1
	return true
}

func ruleHashKey(c *Ctx) {
	c.S.Rule("R-C13-hashkey", textHashKey, 2)
	h := &hashCtx{c: c, memo: map[*ssa.Function]int{}}
	// key sinks: parameters of package functions that are used as the key of such a map (orderedRespMap.set(k, v))
	sink := map[*ssa.Function]map[int]bool{}
	for _, fn := range c.SrcFuncs() {
		for _, in := range instrsOf(fn) {
			var key ssa.Value
			switch x := in.(type) {
			case *ssa.MapUpdate:
				key = x.Key
			case *ssa.Lookup:
				if _, isMap := x.X.Type().Underlying().(*types.Map); isMap {
					key = x.Index
				}
			}
			if key == nil || !containsInterface(key.Type(), 0) {
				continue
			}
			for i, p := range fn.Params {
				if ssa.Value(p) == key {
					if sink[fn] == nil {
						sink[fn] = map[int]bool{}
					}
					sink[fn][i] = true
				}
			}
		}
	}
	// the maps the request parser builds from what the client sends: every key it inserts, directly or through a sink
	for _, fn := range c.SrcFuncs() {
		inParser := false
		for f := fn; f != nil; f = f.Parent() { // the parser's methods and the closures they define
			if f.Signature.Recv() != nil && c.isPkgType(f.Signature.Recv().Type(), "respDeserializer") {
				inParser = true
			}
		}
		if !inParser {
			continue
		}
		k := 0
		for _, in := range instrsOf(fn) {
			var key ssa.Value
			what := ""
			switch x := in.(type) {
			case *ssa.MapUpdate:
				if mt, ok := x.Map.Type().Underlying().(*types.Map); ok && containsInterface(mt.Key(), 0) {
					key, what = x.Key, "insert"
				}
			case *ssa.Lookup:
				if mt, ok := x.X.Type().Underlying().(*types.Map); ok && containsInterface(mt.Key(), 0) {
					key, what = x.Index, "lookup"
				}
			case *ssa.Call:
				if g := x.Call.StaticCallee(); g != nil && sink[g] != nil {
					for i := range sink[g] {
						if i < len(x.Call.Args) {
							key, what = x.Call.Args[i], "key passed to "+g.Name()
						}
					}
				}
			}
			if key == nil {
				continue
			}
			k++
			okey := fmt.Sprintf("%s:%s#%d", fnName(fn), what, k)
			why := ""
			if h.hashable(key, 0, &why) {
				c.S.OK("R-C13-hashkey", okey, c.Pos(c.InstrPos(in)), "the key is hashable by construction")
			} else {
				c.S.Bad("R-C13-hashkey", okey, c.Pos(c.InstrPos(in)), fmt.Sprintf("%s uses a key whose interface part is not known to be hashable (%s): a request that puts an array, set or map there panics with 'hash of unhashable type' and takes the process down", fnName(fn), why))
			}
		}
	}
}

// reachingStore: the value of the unique whole-variable store to cell `a` that reaches the load: it dominates the load,
// and no other store to the cell can reach the load without passing it again. nil if there is no such store.
func reachingStore(load *ssa.UnOp, a *ssa.Alloc) ssa.Value {
	var stores []*ssa.Store
	for _, r := range referrers(a) {
		switch rr := r.(type) {
		case *ssa.Store:
			if rr.Addr == ssa.Value(a) {
				stores = append(stores, rr)
			}
		case *ssa.FieldAddr:
			for _, r2 := range referrers(rr) {
				if st, ok := r2.(*ssa.Store); ok && st.Addr == ssa.Value(rr) {
					return nil // written field by field: not handled here
				}
			}
		}
	}
	for _, s := range stores {
		if !instrDominates(s, load) {
			continue
		}
		last := true
		for _, o := range stores {
			if o == s {
				continue
			}
			if o.Block() == s.Block() {
				if instrIndex(o) > instrIndex(s) && (load.Block() != s.Block() || instrIndex(o) < instrIndex(load)) {
					last = false
				}
				continue
			}
			if o.Block() == load.Block() {
				if instrIndex(o) < instrIndex(load) {
					last = false
				}
				continue
			}
			if load.Block() == s.Block() {
				continue // s precedes the load in its own block: a store elsewhere cannot come between them
			}
			if plainReachAvoid(o.Block(), load.Block(), s.Block()) {
				last = false
			}
		}
		if last {
			return s.Val
		}
	}
	return nil
}

// typeSwitchedHashable: the interface value v is used in block b only on ways that passed a successful type test of v
// (`case respInt, respDouble, respBool: out.data = data`) for a concrete type that can always be hashed.
func typeSwitchedHashable(v ssa.Value, b *ssa.BasicBlock) bool {
	if _, isIface := v.Type().Underlying().(*types.Interface); !isIface {
		return false
	}
	okTest := func(d *ssa.BasicBlock) bool {
		ifi, ok := d.Instrs[len(d.Instrs)-1].(*ssa.If)
		if !ok {
			return false
		}
		ex, ok := ifi.Cond.(*ssa.Extract)
		if !ok || ex.Index != 1 {
			return false
		}
		ta, ok := ex.Tuple.(*ssa.TypeAssert)
		if !ok || !ta.CommaOk || !sameValue(ta.X, v) {
			return false
		}
		return staticallyHashable(ta.AssertedType, 0)
	}
	seen := map[*ssa.BasicBlock]bool{}
	var back func(x *ssa.BasicBlock) bool
	back = func(x *ssa.BasicBlock) bool {
		if seen[x] {
			return true
		}
		seen[x] = true
		if len(x.Preds) == 0 {
			return false
		}
		for _, d := range x.Preds {
			if okTest(d) && d.Succs[0] == x && d.Succs[1] != x {
				continue
			}
			if !back(d) {
				return false
			}
		}
		return true
	}
	return back(b)
}

// ---------------------------------------------------------------- R-dict-value-agree

const textDictValue = "R-dict-value-agree: a type assertion on a value taken out of a dictionary (an iterator's value, the result of a lookup) asserts a Go type that the code which fills dictionaries of that kind stores there — strings in a hash, struct{} in a set, key objects in the keyspace. `i.value.(string)` while iterating a set panics for every member (SORT on a set)"

type dictKinds struct {
	c     *Ctx
	fFlag *types.Var
	fPay  *types.Var
	fData *types.Var
	memo  map[ssa.Value]map[string]bool
}

// flagConstName: the FLAG_KEY_TYPE_* constant with this value.
func (dk *dictKinds) flagConstName(v ssa.Value) string {
	cst, ok := stripValue(v).(*ssa.Const)
	if !ok || cst.Value == nil {
		return ""
	}
	sc := dk.c.Pkg.Types.Scope()
	for _, n := range sc.Names() {
		if strings.HasPrefix(n, "FLAG_KEY_TYPE_") {
			if k, ok := sc.Lookup(n).(*types.Const); ok && k.Val().ExactString() == cst.Value.ExactString() && types.Identical(k.Type(), cst.Type()) {
				return n
			}
		}
	}
	return ""
}

// kinds: which kinds of dictionary v can be ("FLAG_KEY_TYPE_SET", "FLAG_KEY_TYPE_HASH_TABLE", "keyspace"); empty = unknown.
func (dk *dictKinds) kinds(v ssa.Value, depth int) map[string]bool {
	out := map[string]bool{}
	if v == nil || depth > 6 {
		return out
	}
	if r, ok := dk.memo[v]; ok {
		return r
	}
	dk.memo[v] = out
	add := func(m map[string]bool) {
		for k := range m {
			out[k] = true
		}
	}
	switch x := v.(type) {
	case *ssa.Phi:
		for _, e := range x.Edges {
			if !isNilConst(e) {
				add(dk.kinds(e, depth+1))
			}
		}
	case *ssa.Extract:
		if call, ok := x.Tuple.(*ssa.Call); ok {
			add(dk.resultKinds(call.Call.StaticCallee(), x.Index, depth+1))
		}
	case *ssa.Call:
		add(dk.resultKinds(x.Call.StaticCallee(), 0, depth+1))
		// a new dictionary: the key type it is installed under in this function
		if len(out) == 0 {
			add(dk.installedAs(x))
		}
	case *ssa.Alloc:
		add(dk.installedAs(x))
	case *ssa.TypeAssert:
		// payload.(*redisDict): the flag test every way into the assertion passes
		if _, f := loadedField(x.X); f == dk.fPay {
			seen := map[*ssa.BasicBlock]bool{}
			var back func(b *ssa.BasicBlock)
			back = func(b *ssa.BasicBlock) {
				if seen[b] {
					return
				}
				seen[b] = true
				for _, d := range b.Preds {
					if ifi, ok := d.Instrs[len(d.Instrs)-1].(*ssa.If); ok {
						if call, ok := ifi.Cond.(*ssa.Call); ok && len(call.Call.Args) == 2 {
							if _, f := loadedField(call.Call.Args[0]); f == dk.fFlag && d.Succs[0] == b && d.Succs[1] != b {
								if n := dk.flagConstName(call.Call.Args[1]); n != "" {
									out[n] = true
									continue
								}
							}
						}
					}
					back(d)
				}
			}
			back(x.Block())
		}
	case *ssa.UnOp:
		if x.Op != token.MUL {
			break
		}
		switch a := x.X.(type) {
		case *ssa.FieldAddr:
			if fieldOf(a) == dk.fData {
				out["keyspace"] = true
			}
		case *ssa.Alloc:
			for _, r := range referrers(a) {
				if st, ok := r.(*ssa.Store); ok && st.Addr == ssa.Value(a) && !isNilConst(st.Val) {
					add(dk.kinds(st.Val, depth+1))
				}
			}
		case *ssa.FreeVar:
			// captured variable: the cell in the enclosing function
			fn := a.Parent()
			for i, fv := range fn.FreeVars {
				if fv != a || fn.Parent() == nil {
					continue
				}
				for _, in := range instrsOf(fn.Parent()) {
					if mc, ok := in.(*ssa.MakeClosure); ok && mc.Fn == ssa.Value(fn) && i < len(mc.Bindings) {
						if al, ok := mc.Bindings[i].(*ssa.Alloc); ok {
							for _, r := range referrers(al) {
								if st, ok := r.(*ssa.Store); ok && st.Addr == ssa.Value(al) && !isNilConst(st.Val) {
									add(dk.kinds(st.Val, depth+1))
								}
							}
						}
					}
				}
			}
		}
	case *ssa.Parameter:
		fn := x.Parent()
		idx := -1
		for i, p := range fn.Params {
			if p == x {
				idx = i
			}
		}
		if node := dk.c.CG.Nodes[fn]; node != nil && idx >= 0 {
			for _, e := range node.In {
				args := e.Site.Common().Args
				if !e.Site.Common().IsInvoke() && idx < len(args) {
					add(dk.kinds(args[idx], depth+1))
				}
			}
		}
	}
	return out
}

func (dk *dictKinds) resultKinds(g *ssa.Function, idx int, depth int) map[string]bool {
	out := map[string]bool{}
	if g == nil || g.Blocks == nil || !dk.c.InPkg(g) {
		return out
	}
	for _, b := range g.Blocks {
		if ret, ok := b.Instrs[len(b.Instrs)-1].(*ssa.Return); ok && idx < len(ret.Results) && !isNilConst(ret.Results[idx]) {
			for k := range dk.kinds(ret.Results[idx], depth) {
				out[k] = true
			}
		}
	}
	return out
}

// installedAs: the dictionary object d is stored as the payload of a key object whose flags are set to a constant in the
// same function.
func (dk *dictKinds) installedAs(d ssa.Value) map[string]bool {
	out := map[string]bool{}
	ins, ok := d.(ssa.Instruction)
	if !ok || ins.Parent() == nil {
		return out
	}
	fn := ins.Parent()
	for _, in := range instrsOf(fn) {
		st, ok := isStoreTo(in, dk.fPay)
		if !ok {
			continue
		}
		v := st.Val
		if mi, ok := v.(*ssa.MakeInterface); ok {
			v = mi.X
		}
		same := v == d
		if !same {
			for _, leaf := range phiLeaves(v, map[ssa.Value]bool{}) {
				if leaf == d {
					same = true
				}
			}
		}
		if !same {
			continue
		}
		base := st.Addr.(*ssa.FieldAddr).X
		for _, in2 := range instrsOf(fn) {
			if st2, ok := isStoreTo(in2, dk.fFlag); ok && sameBase(st2.Addr.(*ssa.FieldAddr).X, base) {
				if n := dk.flagConstName(st2.Val); n != "" {
					out[n] = true
				}
			}
		}
	}
	return out
}

func ruleDictValueAgree(c *Ctx) {
	c.S.Rule("R-dict-value-agree", textDictValue, 1)
	mm := c.M.Muts()
	dk := &dictKinds{c: c, fFlag: c.Field("storeKey", "flags"), fPay: c.Field("storeKey", "payload"), fData: c.Field("dataStore", "data"), memo: map[ssa.Value]map[string]bool{}}
	if dk.fFlag == nil || dk.fPay == nil || dk.fData == nil {
		c.S.Undecided("R-dict-value-agree", "anchors", "-", "storeKey.flags / payload / dataStore.data not found")
		return
	}
	isDictMethod := func(f *ssa.Function) bool {
		return f != nil && f.Signature.Recv() != nil && c.isPkgType(f.Signature.Recv().Type(), "redisDict")
	}
	// producers: the Go types stored as values per kind
	produced := map[string]map[string]bool{}
	for _, fn := range c.SrcFuncs() {
		if isDictMethod(fn) {
			continue
		}
		for _, in := range instrsOf(fn) {
			call, ok := in.(*ssa.Call)
			if !ok || !mm.dictStore[call.Call.StaticCallee()] || len(call.Call.Args) < 3 {
				continue
			}
			val := call.Call.Args[2]
			mi, ok := val.(*ssa.MakeInterface)
			if !ok {
				continue // a value passed on from another dictionary (copies): not a producer of a type
			}
			for k := range dk.kinds(call.Call.Args[0], 0) {
				if produced[k] == nil {
					produced[k] = map[string]bool{}
				}
				produced[k][typeString(mi.X.Type())] = true
			}
		}
	}
	// consumers: functions a command can reach (helpers kept "for reference" and never called are not behaviour)
	live := map[*ssa.Function]bool{}
	if hs, err := c.M.Handlers(); err == nil {
		for _, h := range hs {
			for f := range c.M.Reach(h) {
				live[f] = true
			}
		}
	}
	n := 0
	for _, fn := range c.SrcFuncs() {
		if isDictMethod(fn) || (len(live) > 0 && !live[enclosing(fn)]) {
			continue
		}
		k := 0
		for _, in := range instrsOf(fn) {
			ta, ok := in.(*ssa.TypeAssert)
			if !ok {
				continue
			}
			// where does the asserted value come from?
			var dict ssa.Value
			switch src := ta.X.(type) {
			case *ssa.UnOp:
				// it.value of an iterator made from a dictionary
				if fa, ok := src.X.(*ssa.FieldAddr); ok && src.Op == token.MUL {
					if mk, ok := fa.X.(*ssa.Call); ok && isDictMethod(mk.Call.StaticCallee()) && len(mk.Call.Args) > 0 && !c.isPkgType(mk.Type(), "redisDict") {
						if _, isIface := fieldOf(fa).Type().Underlying().(*types.Interface); isIface {
							dict = mk.Call.Args[0]
						}
					}
				}
			case *ssa.Extract:
				if call, ok := src.Tuple.(*ssa.Call); ok && isDictMethod(call.Call.StaticCallee()) && len(call.Call.Args) > 0 && !mm.dictStore[call.Call.StaticCallee()] && !mm.dictRem[call.Call.StaticCallee()] {
					dict = call.Call.Args[0]
				}
			}
			if dict == nil {
				continue
			}
			ks := dk.kinds(dict, 0)
			if len(ks) == 0 {
				continue
			}
			k++
			n++
			key := fmt.Sprintf("%s:value.(%s)#%d", fnName(fn), typeString(ta.AssertedType), k)
			T := typeString(ta.AssertedType)
			bad := ""
			for kind := range ks {
				if len(produced[kind]) > 0 && !produced[kind][T] {
					var have []string
					for t := range produced[kind] {
						have = append(have, t)
					}
					bad = fmt.Sprintf("%s (values stored there: %s)", strings.TrimPrefix(kind, "FLAG_KEY_TYPE_"), strings.Join(have, ", "))
				}
			}
			if bad != "" {
				c.S.Bad("R-dict-value-agree", key, c.Pos(ta.Pos()), fmt.Sprintf("%s asserts .(%s) on a value taken from a dictionary of kind %s: the assertion fails for every entry — a panic in the command goroutine when it is the single-result form", fnName(fn), T, bad))
			} else {
				c.S.OK("R-dict-value-agree", key, c.Pos(ta.Pos()), "asserts a type the producers store in dictionaries of this kind")
			}
		}
	}
	if n == 0 {
		c.S.Trivial("R-dict-value-agree", "none", "-", "no type assertion on dictionary values whose kind is known")
	}
}
