package main

// M2 — the command grammar, read from the embedded spec files named by the //go:embed directives
// (own minimal RESP reader; nothing of the emulator is executed).

import (
	"fmt"
	"go/ast"
	"os"
	"path/filepath"
	"sort"
	"strconv"
	"strings"
)

type GArg struct {
	Name, Type, Token                 string
	Optional, Multiple, MultipleToken bool
	Args                              []*GArg
}

type GCmd struct {
	Token    string
	Args     []*GArg
	Sub      map[string]*GCmd
	HasInfo  bool
	Arity    int64
	Flags    []string
	KeySpecs int
}

type Grammar struct {
	Cmds  map[string]*GCmd // by full token, e.g. "set", "client|kill"
	Files []string
}

func (c *GCmd) hasFlag(f string) bool {
	for _, x := range c.Flags {
		if x == f {
			return true
		}
	}
	return false
}

// embedFile returns the file named by the //go:embed directive on variable `name`.
func (p *Prog) embedFile(name string) string {
	for _, f := range p.Pkg.Syntax {
		for _, d := range f.Decls {
			gd, ok := d.(*ast.GenDecl)
			if !ok {
				continue
			}
			for _, sp := range gd.Specs {
				vs, ok := sp.(*ast.ValueSpec)
				if !ok {
					continue
				}
				for _, n := range vs.Names {
					if n.Name != name {
						continue
					}
					for _, cg := range []*ast.CommentGroup{vs.Doc, gd.Doc} {
						if cg == nil {
							continue
						}
						for _, cm := range cg.List {
							if strings.HasPrefix(cm.Text, "//go:embed ") {
								return strings.TrimSpace(strings.TrimPrefix(cm.Text, "//go:embed "))
							}
						}
					}
				}
			}
		}
	}
	return ""
}

// ---- minimal RESP reader over LF/CRLF resources

type respReader struct {
	lines []string
	pos   int
}

func newRespReader(b []byte) *respReader {
	s := strings.ReplaceAll(string(b), "\r\n", "\n")
	return &respReader{lines: strings.Split(s, "\n")}
}

func (r *respReader) next() (any, error) {
	if r.pos >= len(r.lines) {
		return nil, fmt.Errorf("unexpected end of resource")
	}
	line := r.lines[r.pos]
	r.pos++
	if line == "" {
		return nil, fmt.Errorf("blank line at %d", r.pos)
	}
	switch line[0] {
	case '+', '-':
		return line[1:], nil
	case ':':
		n, err := strconv.ParseInt(line[1:], 10, 64)
		return n, err
	case '$':
		n, err := strconv.Atoi(line[1:])
		if err != nil {
			return nil, err
		}
		if n < 0 {
			return nil, nil
		}
		// content may span lines if it contains newlines
		content := ""
		for {
			if r.pos >= len(r.lines) {
				return nil, fmt.Errorf("truncated bulk string")
			}
			content += r.lines[r.pos]
			r.pos++
			if len(content) >= n {
				break
			}
			content += "\n"
		}
		if len(content) != n {
			return nil, fmt.Errorf("bulk length mismatch near line %d: declared %d, got %d", r.pos, n, len(content))
		}
		return content, nil
	case '*', '%', '~':
		n, err := strconv.Atoi(line[1:])
		if err != nil {
			return nil, err
		}
		if line[0] == '%' {
			n *= 2
		}
		arr := make([]any, 0, n)
		for i := 0; i < n; i++ {
			v, err := r.next()
			if err != nil {
				return nil, err
			}
			arr = append(arr, v)
		}
		return arr, nil
	}
	return nil, fmt.Errorf("unsupported RESP type %q at line %d", line[0], r.pos)
}

func asTable(v any) map[string]any {
	arr, ok := v.([]any)
	if !ok || len(arr)%2 != 0 {
		return nil
	}
	m := map[string]any{}
	for i := 0; i < len(arr); i += 2 {
		k, ok := arr[i].(string)
		if !ok {
			return nil
		}
		m[k] = arr[i+1]
	}
	return m
}

func parseGArgs(v any) ([]*GArg, error) {
	arr, ok := v.([]any)
	if !ok {
		return nil, fmt.Errorf("arguments is not an array")
	}
	var out []*GArg
	for _, e := range arr {
		t := asTable(e)
		if t == nil {
			return nil, fmt.Errorf("argument is not a table")
		}
		a := &GArg{}
		a.Name, _ = t["name"].(string)
		a.Type, _ = t["type"].(string)
		a.Token, _ = t["token"].(string)
		if fl, ok := t["flags"].([]any); ok {
			for _, f := range fl {
				switch f {
				case "optional":
					a.Optional = true
				case "multiple":
					a.Multiple = true
				case "multiple_token":
					a.MultipleToken = true
				}
			}
		}
		if sub, ok := t["arguments"]; ok {
			sa, err := parseGArgs(sub)
			if err != nil {
				return nil, err
			}
			a.Args = sa
		}
		out = append(out, a)
	}
	return out, nil
}

func parseGCmds(v any, into map[string]*GCmd) error {
	arr, ok := v.([]any)
	if !ok || len(arr)%2 != 0 {
		return fmt.Errorf("command list is not a name/definition array")
	}
	for i := 0; i < len(arr); i += 2 {
		name, _ := arr[i].(string)
		t := asTable(arr[i+1])
		if t == nil {
			return fmt.Errorf("command %q: definition is not a table", name)
		}
		c := &GCmd{Token: name, Sub: map[string]*GCmd{}}
		if a, ok := t["arguments"]; ok {
			args, err := parseGArgs(a)
			if err != nil {
				return fmt.Errorf("command %q: %w", name, err)
			}
			c.Args = args
		}
		if s, ok := t["subcommands"]; ok {
			if err := parseGCmds(s, c.Sub); err != nil {
				return err
			}
			for k, sc := range c.Sub {
				into[k] = sc
			}
		}
		into[name] = c
	}
	return nil
}

func parseGInfo(v any, g *Grammar) error {
	arr, ok := v.([]any)
	if !ok {
		return fmt.Errorf("info is not an array")
	}
	for _, e := range arr {
		rec, ok := e.([]any)
		if !ok || len(rec) < 10 {
			return fmt.Errorf("info record malformed")
		}
		name, _ := rec[0].(string)
		c := g.Cmds[name]
		if c != nil {
			c.HasInfo = true
			c.Arity, _ = rec[1].(int64)
			if fl, ok := rec[2].([]any); ok {
				for _, f := range fl {
					if s, ok := f.(string); ok {
						c.Flags = append(c.Flags, s)
					}
				}
			}
			if ks, ok := rec[8].([]any); ok {
				c.KeySpecs = len(ks)
			}
		}
		if err := parseGInfo(rec[9], g); err != nil {
			return err
		}
	}
	return nil
}

// Grammar loads M2.
func (m *Models) Grammar() (*Grammar, error) {
	if m.grammarDone {
		return m.grammar, m.grammarErr
	}
	m.grammarDone = true
	p := m.p
	g := &Grammar{Cmds: map[string]*GCmd{}}
	specFile, infoFile := p.embedFile("cmdSpec"), p.embedFile("cmdInfoSpec")
	if specFile == "" || infoFile == "" {
		m.grammarErr = fmt.Errorf("//go:embed directives for cmdSpec / cmdInfoSpec not found")
		return nil, m.grammarErr
	}
	read := func(name string) (any, error) {
		b, err := os.ReadFile(filepath.Join(p.Root, name))
		if err != nil {
			return nil, err
		}
		g.Files = append(g.Files, name)
		return newRespReader(b).next()
	}
	spec, err := read(specFile)
	if err != nil {
		m.grammarErr = fmt.Errorf("%s: %w", specFile, err)
		return nil, m.grammarErr
	}
	if err := parseGCmds(spec, g.Cmds); err != nil {
		m.grammarErr = fmt.Errorf("%s: %w", specFile, err)
		return nil, m.grammarErr
	}
	info, err := read(infoFile)
	if err != nil {
		m.grammarErr = fmt.Errorf("%s: %w", infoFile, err)
		return nil, m.grammarErr
	}
	if err := parseGInfo(info, g); err != nil {
		m.grammarErr = fmt.Errorf("%s: %w", infoFile, err)
		return nil, m.grammarErr
	}
	m.grammar = g
	return g, nil
}

// ---------------------------------------------------------------- M3: what the parser stores in args

// ValDesc describes the Go value stored under one key.
type ValDesc struct {
	Always bool     // present in every successful parse
	GoType string   // "string","int64","float64","nil","[]any","*orderedMap"
	Elem   *ValDesc // for []any
	Block  *GArg    // for *orderedMap (and Elem of block lists)
	Arg    *GArg
}

func (d *ValDesc) String() string {
	if d == nil {
		return "<absent>"
	}
	s := d.GoType
	if d.GoType == "[]any" && d.Elem != nil {
		s = "[]any of " + d.Elem.GoType
	}
	if !d.Always {
		s += " (optional)"
	}
	return s
}

func baseGoType(typ string, intsAsStrings bool) string {
	switch typ {
	case "key", "string", "pattern":
		return "string"
	case "integer", "unix-time":
		if intsAsStrings {
			return "string"
		}
		return "int64"
	case "double":
		return "float64"
	case "pure-token":
		return "nil"
	case "block":
		return "*orderedMap"
	}
	return "?" + typ
}

// keysOf computes the keys an argument can contribute to its enclosing map, mirroring
// parseOneInput / parseOneOf: name for plain args, name.sub for oneof alternatives.
func keysOf(a *GArg, intsAsStrings bool, always bool) map[string]*ValDesc {
	out := map[string]*ValDesc{}
	multi := a.Multiple || a.MultipleToken
	wrap := func(d *ValDesc) *ValDesc {
		if multi {
			return &ValDesc{Always: d.Always, GoType: "[]any", Elem: &ValDesc{Always: true, GoType: d.GoType, Block: d.Block, Elem: d.Elem, Arg: d.Arg}, Arg: a}
		}
		return d
	}
	switch a.Type {
	case "oneof":
		single := len(a.Args) == 1
		for _, alt := range a.Args {
			for k, d := range keysOf(alt, intsAsStrings, always && single && !a.Optional) {
				nd := *d
				nd.Always = always && single && !a.Optional && d.Always
				// a multiple oneof whose alternative is a pure token stays a single value (PARSE_MULTI_ONE_OF_TOKEN)
				if multi && !(alt.Type == "pure-token") && nd.GoType != "[]any" {
					out[a.Name+"."+k] = &ValDesc{Always: nd.Always, GoType: "[]any", Elem: &ValDesc{Always: true, GoType: nd.GoType, Block: nd.Block, Arg: nd.Arg}, Arg: a}
				} else {
					out[a.Name+"."+k] = &nd
				}
			}
		}
	case "block":
		out[a.Name] = wrap(&ValDesc{Always: always && !a.Optional, GoType: "*orderedMap", Block: a, Arg: a})
	default:
		out[a.Name] = wrap(&ValDesc{Always: always && !a.Optional, GoType: baseGoType(a.Type, intsAsStrings), Arg: a})
	}
	return out
}

// mapKeys: keys of the map produced from an argument list (top level or block).
// In a block, an argument that follows a multiple argument may be missing even if mandatory
// (parseInputBlock returns the partial block once a multiple argument has matched).
func mapKeys(args []*GArg, intsAsStrings bool, isBlock bool) map[string]*ValDesc {
	out := map[string]*ValDesc{}
	sawMultiple := false
	for _, a := range args {
		always := !(isBlock && sawMultiple)
		for k, d := range keysOf(a, intsAsStrings, always) {
			if old, ok := out[k]; ok {
				// same key from two arguments: present if either; types must agree, else mark unknown
				if old.GoType != d.GoType {
					out[k] = &ValDesc{Always: old.Always || d.Always, GoType: "?conflict(" + old.GoType + "," + d.GoType + ")"}
				} else if d.Always {
					old.Always = true
				}
				continue
			}
			out[k] = d
		}
		if a.Multiple || a.MultipleToken || containsMultiple(a) {
			sawMultiple = true
		}
	}
	return out
}

func containsMultiple(a *GArg) bool {
	for _, s := range a.Args {
		if s.Multiple || s.MultipleToken || (s.Type == "oneof" && containsMultiple(s)) {
			return true
		}
	}
	return false
}

// TopKeys returns the key table of a command token. bitfield/bitfield_ro are parsed with
// PARSE_SAVE_INTEGERS_AS_STRINGS|PARSE_ADD_ARG_INDEX_TO_BLOCK (see prepare).
func (g *Grammar) TopKeys(token string) map[string]*ValDesc {
	c := g.Cmds[token]
	if c == nil {
		return nil
	}
	return mapKeys(c.Args, token == "bitfield" || token == "bitfield_ro", false)
}

func (g *Grammar) BlockKeys(token string, blk *GArg) map[string]*ValDesc {
	special := token == "bitfield" || token == "bitfield_ro"
	out := mapKeys(blk.Args, special, true)
	if special {
		out["arg-index"] = &ValDesc{Always: true, GoType: "int"}
	}
	return out
}

func sortedKeys[V any](m map[string]V) []string {
	var ks []string
	for k := range m {
		ks = append(ks, k)
	}
	sort.Strings(ks)
	return ks
}
