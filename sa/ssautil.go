package main

// Small SSA helpers shared by the rules.

import (
	"go/token"
	"go/types"
	"strings"

	"golang.org/x/tools/go/ssa"
)

// instrsOf returns all instructions of fn in block order.
func instrsOf(fn *ssa.Function) []ssa.Instruction {
	var out []ssa.Instruction
	for _, b := range fn.Blocks {
		out = append(out, b.Instrs...)
	}
	return out
}

// calleeName returns the stable name of the static callee of a call, or "".
func calleeName(c ssa.CallInstruction) string {
	if f := c.Common().StaticCallee(); f != nil {
		return fnName(f)
	}
	return ""
}

// fullCalleeName returns the fully qualified name ("sync/atomic.StoreUint32", "(*sync.Mutex).Lock").
func fullCalleeName(c ssa.CallInstruction) string {
	cc := c.Common()
	if f := cc.StaticCallee(); f != nil {
		// the typed atomics (`x.CompareAndSwap(a, b)` on an atomic.Int32 field) are named like the functions they wrap
		// (`atomic.CompareAndSwapInt32(&x, a, b)`): the receiver is argument 0 in both forms, so rules written for
		// one form hold for the other
		if recv := f.Signature.Recv(); recv != nil {
			if n, ok := deref(recv.Type()).(*types.Named); ok && n.Obj().Pkg() != nil && n.Obj().Pkg().Path() == "sync/atomic" {
				return "sync/atomic." + f.Name() + n.Obj().Name()
			}
		}
		return f.String()
	}
	if cc.IsInvoke() {
		return "invoke " + cc.Method.FullName()
	}
	return ""
}

// stripValue removes conversions / ChangeType / MakeInterface wrappers.
func stripValue(v ssa.Value) ssa.Value {
	for {
		switch x := v.(type) {
		case *ssa.ChangeType:
			v = x.X
		case *ssa.Convert:
			v = x.X
		case *ssa.MakeInterface:
			v = x.X
		case *ssa.ChangeInterface:
			v = x.X
		default:
			return v
		}
	}
}

// loadedField: if v is `*FieldAddr(x, f)` (a load of a struct field) or Field(x,f), return x and f.
func loadedField(v ssa.Value) (base ssa.Value, f *types.Var) {
	switch x := v.(type) {
	case *ssa.UnOp:
		if x.Op == token.MUL {
			if fa, ok := x.X.(*ssa.FieldAddr); ok {
				return outerBase(fa.X), fieldOf(fa)
			}
		}
	case *ssa.Field:
		return x.X, fieldOf(x)
	}
	return nil, nil
}

// outerBase: the object a field access starts from, looking through embedded helper structs (`cs.captureGate.blocked`
// is a field of cs).
func outerBase(v ssa.Value) ssa.Value {
	for i := 0; i < 3; i++ {
		fa, ok := v.(*ssa.FieldAddr)
		if !ok {
			return v
		}
		f := fieldOf(fa)
		if f == nil || !f.Embedded() {
			return v
		}
		v = fa.X
	}
	return v
}

// isFieldLoad reports whether v is a load of field `owner.name`.
func (p *Prog) isFieldLoad(v ssa.Value, owner, name string) bool {
	_, f := loadedField(v)
	return f != nil && f.Name() == name && p.ownerName(f) == owner
}

// fieldPath renders a chain of field loads like "dsc.ds.data" as "dataStoreCommand.ds.data" (types, not var names).
func (p *Prog) fieldPath(v ssa.Value) string {
	var parts []string
	for i := 0; i < 6; i++ {
		b, f := loadedField(v)
		if f == nil {
			if fa, ok := v.(*ssa.FieldAddr); ok {
				parts = append([]string{fieldOf(fa).Name()}, parts...)
				v = fa.X
				continue
			}
			break
		}
		parts = append([]string{f.Name()}, parts...)
		v = b
	}
	root := "?"
	if v != nil {
		t := deref(v.Type())
		if n, ok := t.(*types.Named); ok {
			root = n.Obj().Name()
		} else {
			root = t.String()
		}
	}
	return root + "." + strings.Join(parts, ".")
}

// dominates reports whether block a dominates block b.
func dominates(a, b *ssa.BasicBlock) bool { return a.Dominates(b) }

// reachableFrom computes the blocks reachable from `from` (following successors), optionally
// skipping edges for which skipEdge returns true.
func reachableFrom(from *ssa.BasicBlock, skipEdge func(a, b *ssa.BasicBlock) bool) map[*ssa.BasicBlock]bool {
	seen := map[*ssa.BasicBlock]bool{from: true}
	stack := []*ssa.BasicBlock{from}
	for len(stack) > 0 {
		b := stack[len(stack)-1]
		stack = stack[:len(stack)-1]
		for _, s := range b.Succs {
			if skipEdge != nil && skipEdge(b, s) {
				continue
			}
			if !seen[s] {
				seen[s] = true
				stack = append(stack, s)
			}
		}
	}
	return seen
}

// typeName returns the name of the (pointer to) named type of t, "" otherwise.
func typeName(t types.Type) string {
	t = deref(t)
	if n, ok := t.(*types.Named); ok {
		if curProg != nil && n.Obj().Pkg() == curProg.Pkg.Types {
			return curProg.canonTypeName(n) // a renamed package type is known under its recorded name (schema.go)
		}
		return n.Obj().Name()
	}
	return ""
}

// isPkgType reports whether t is (a pointer to) the package-level named type `name` of the analysed package.
func (p *Prog) isPkgType(t types.Type, name string) bool {
	t = deref(t)
	n, ok := t.(*types.Named)
	if !ok || n.Obj().Pkg() != p.Pkg.Types {
		return false
	}
	if n.Obj().Name() == name {
		return true
	}
	// a renamed type is known under its recorded name (schema.go)
	_, frozenS := frozenSchema[name]
	_, frozenN := frozenNamed[name]
	if frozenS || frozenN {
		if r := p.schema().typeOf[name]; r != nil {
			if r.Obj() == n.Origin().Obj() {
				return true
			}
		}
	}
	// a new helper struct embedded in the named struct, holding fields that used to be its own, is part of it
	// (`type clientState struct { captureGate; … }`: methods of captureGate are methods of clientState)
	if frozenS {
		if _, known := frozenSchema[n.Obj().Name()]; !known {
			if outer := p.NamedType(name); outer != nil {
				if ost, ok := outer.Underlying().(*types.Struct); ok {
					for i := 0; i < ost.NumFields(); i++ {
						e := ost.Field(i)
						if e.Embedded() {
							if en, ok := deref(e.Type()).(*types.Named); ok && en.Obj() == n.Obj() {
								if est, ok := en.Underlying().(*types.Struct); ok {
									for j := 0; j < est.NumFields(); j++ {
										if p.promotedOwner(est.Field(j)) == name {
											return true
										}
									}
								}
							}
						}
					}
				}
			}
		}
	}
	return false
}

// referrers returns the referrers of v (nil-safe).
func referrers(v ssa.Value) []ssa.Instruction {
	r := v.Referrers()
	if r == nil {
		return nil
	}
	return *r
}

// enclosing returns the outermost named function enclosing fn (fn itself if it is not a closure).
func enclosing(fn *ssa.Function) *ssa.Function {
	for fn.Parent() != nil {
		fn = fn.Parent()
	}
	return fn
}

// instrIndex returns the index of in within its block.
func instrIndex(in ssa.Instruction) int {
	for i, x := range in.Block().Instrs {
		if x == in {
			return i
		}
	}
	return -1
}

// instrDominates: a executes before b on every path reaching b (same function).
func instrDominates(a, b ssa.Instruction) bool {
	if a.Block() == b.Block() {
		return instrIndex(a) < instrIndex(b)
	}
	return a.Block().Dominates(b.Block())
}
