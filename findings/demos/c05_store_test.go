package redisemu

import "testing"

// SINTERSTORE/SDIFFSTORE/SUNIONSTORE with an empty result: the destination must not exist afterwards.
func TestDemoC05StoreEmptyResult(t *testing.T) {
	s := startDemo(t, "")
	defer s.stop()
	c := s.dial(t)
	c.do("SADD", "a", "1")
	c.do("SADD", "b", "2")
	expect(t, "SINTERSTORE dst a b (disjoint)", c.do("SINTERSTORE", "dst", "a", "b"), `:0`)
	expect(t, "EXISTS dst after an empty SINTERSTORE", c.do("EXISTS", "dst"), `:0`)
	expect(t, "TYPE dst", c.do("TYPE", "dst"), `+none`)
	c.do("SADD", "old", "x", "y")
	expect(t, "SDIFFSTORE old a a", c.do("SDIFFSTORE", "old", "a", "a"), `:0`)
	expect(t, "EXISTS old after an empty SDIFFSTORE over an existing destination", c.do("EXISTS", "old"), `:0`)
	expect(t, "DBSIZE", c.do("DBSIZE"), `:2`)
	expect(t, "SUNIONSTORE u a b", c.do("SUNIONSTORE", "u", "a", "b"), `:2`)
	expect(t, "EXISTS u", c.do("EXISTS", "u"), `:1`)
}

// SMOVE with source = destination must not lose the member.
func TestDemoC05SmoveSameKey(t *testing.T) {
	s := startDemo(t, "")
	defer s.stop()
	c := s.dial(t)
	c.do("SADD", "s", "m", "n")
	expect(t, "SMOVE s s m", c.do("SMOVE", "s", "s", "m"), `:1`)
	expect(t, "SISMEMBER s m after SMOVE s s m", c.do("SISMEMBER", "s", "m"), `:1`)
	expect(t, "SCARD s", c.do("SCARD", "s"), `:2`)
	expect(t, "SMOVE s s absent", c.do("SMOVE", "s", "s", "zz"), `:0`)
}
