package main

// Rules written against the eighth batch of seeded changes.

import (
	"fmt"
	"go/token"
	"go/types"
	"strings"

	"golang.org/x/tools/go/ssa"
)

// ---------------------------------------------------------------- R-C10-watch-accumulates

const textWatchAccumulates = "R-C10-watch-accumulates: WATCH adds to the connection's watch table: the WATCH handler (with what it calls) only inserts entries, it never stores a new table into the connection — only UNWATCH, DISCARD and EXEC replace it. A handler that builds a fresh map per WATCH command forgets the keys of every earlier WATCH: a change to one of them no longer aborts EXEC"

func ruleC10WatchAccumulates(c *Ctx) {
	const id = "R-C10-watch-accumulates"
	c.S.Rule(id, textWatchAccumulates, 1)
	t := c.txn()
	if len(t.errs) > 0 || t.handlers["watch"] == nil {
		c.S.Undecided(id, "anchors", "-", "WATCH handler / watch table not found")
		return
	}
	h := t.handlers["watch"]
	bad := ""
	inserts := 0
	for f := range c.M.Reach(h) {
		for _, in := range instrsOf(f) {
			if st, ok := isStoreTo(in, t.fWatches); ok {
				if fa, ok := st.Addr.(*ssa.FieldAddr); !ok || !isFresh(fa.X) {
					bad = fmt.Sprintf("%s at %s", fnName(f), c.Pos(st.Pos()))
				}
			}
			if mu, ok := in.(*ssa.MapUpdate); ok {
				if _, fld := loadedField(mu.Map); fld == t.fWatches {
					inserts++
				}
			}
		}
	}
	key := fnName(h) + ":table"
	switch {
	case bad != "":
		c.S.Bad(id, key, c.Pos(h.Pos()), fmt.Sprintf("WATCH replaces the connection's watch table (%s): the keys of earlier WATCH commands are forgotten", bad))
	case inserts == 0:
		c.S.Undecided(id, key, c.Pos(h.Pos()), "the WATCH handler neither inserts into nor replaces the watch table")
	default:
		c.S.OK(id, key, c.Pos(h.Pos()), "WATCH only inserts into the existing table")
	}
}

// ---------------------------------------------------------------- R-make-len-append

const textMakeLenAppend = "R-make-len-append: a slice that is created with a non-zero length is filled by index (or copy), not by append: `make([]string, n)` followed by append hands on n zero values in front of the n real ones. With key names that is n empty strings: DEL of any name also deletes the key \"\", EXISTS counts it"

func ruleMakeLenAppend(c *Ctx) {
	const id = "R-make-len-append"
	c.S.Rule(id, textMakeLenAppend, 0)
	n, bad := 0, 0
	for _, fn := range c.SrcFuncs() {
		k := 0
		for _, in := range instrsOf(fn) {
			ms, ok := in.(*ssa.MakeSlice)
			if !ok {
				continue
			}
			if kc, isC := constInt(ms.Len); isC && kc == 0 {
				continue
			}
			if ms.Cap != ms.Len {
				continue // make(T, len, cap): deliberate
			}
			n++
			// uses: through merges and local cells
			appended, indexed := false, false
			seen := map[ssa.Value]bool{}
			var visit func(v ssa.Value, d int)
			visit = func(v ssa.Value, d int) {
				if seen[v] || d > 6 {
					return
				}
				seen[v] = true
				for _, r := range referrers(v) {
					switch x := r.(type) {
					case *ssa.Phi:
						visit(x, d+1)
					case *ssa.Store:
						if x.Val == v {
							if al, ok := x.Addr.(*ssa.Alloc); ok {
								for _, r2 := range referrers(al) {
									u, ok := r2.(*ssa.UnOp)
									if !ok || u.Op != token.MUL {
										continue
									}
									// only the reads this store can reach (a named result is assigned on several branches)
									if (u.Block() == x.Block() && instrIndex(u) > instrIndex(x)) || (u.Block() != x.Block() && blockReaches(x.Block(), u.Block())) {
										visit(u, d+1)
									}
								}
							} else {
								indexed = true // stored somewhere else: its elements may be set there
							}
						}
					case *ssa.IndexAddr:
						indexed = true
					case *ssa.Slice:
						indexed = true
					case *ssa.Call:
						if b, isB := x.Call.Value.(*ssa.Builtin); isB {
							switch b.Name() {
							case "append":
								if len(x.Call.Args) > 0 && x.Call.Args[0] == v {
									appended = true
								} else {
									indexed = true
								}
							case "copy":
								indexed = true
							case "len", "cap":
							default:
								indexed = true
							}
						} else {
							indexed = true // handed to a function that may fill it
						}
					case *ssa.MapUpdate, *ssa.Send, *ssa.MakeClosure, *ssa.Go, *ssa.Defer:
						indexed = true // handed on to code that may set its elements
					}
				}
			}
			visit(ms, 0)
			if appended && !indexed {
				k++
				bad++
				c.S.Bad(id, fmt.Sprintf("%s:make#%d", fnName(fn), k), c.Pos(ms.Pos()), fmt.Sprintf("%s makes a slice with a non-zero length and then only appends to it: the result starts with that many zero values", fnName(fn)))
			}
		}
	}
	if bad == 0 {
		c.S.OK(id, "all", "-", fmt.Sprintf("%d slice(s) made with a length: none of them is only appended to", n))
	}
}

// ---------------------------------------------------------------- R-C16-go-captures-rewritten

const textGoCaptures = "R-C16-go-captures-rewritten: a goroutine gets its own copy of what it works on: no `go func(){…}()` captures a variable that the function which starts it assigns again afterwards (in the next round of its loop) unless the goroutine only uses it through a parameter. An accept loop whose connection variable is declared outside the loop and read by the set-up goroutine lets one socket get two client objects and another none"

func ruleC16GoCaptures(c *Ctx) {
	const id = "R-C16-go-captures-rewritten"
	c.S.Rule(id, textGoCaptures, 1)
	n, bad := 0, 0
	for _, fn := range c.SrcFuncs() {
		k := 0
		for _, in := range instrsOf(fn) {
			g, ok := in.(*ssa.Go)
			if !ok {
				continue
			}
			mc, ok := g.Call.Value.(*ssa.MakeClosure)
			if !ok {
				continue
			}
			n++
			for _, b := range mc.Bindings {
				al, ok := b.(*ssa.Alloc)
				if !ok {
					continue
				}
				// a store into the captured cell that can run after the go statement
				for _, r := range referrers(al) {
					st, ok := r.(*ssa.Store)
					if !ok || st.Addr != ssa.Value(al) {
						continue
					}
					after := (st.Block() == g.Block() && instrIndex(st) > instrIndex(g)) || blockReaches(g.Block(), st.Block())
					if !after {
						continue
					}
					// the cell is created anew on the way from the go statement to that store (declared inside the loop)
					if al.Block() != g.Block() && blockReaches(g.Block(), al.Block()) && pathMustPass(g.Block(), st.Block(), al.Block()) {
						continue
					}
					if al.Block() == g.Block() && blockInCycle(g.Block()) && instrIndex(al) < instrIndex(g) {
						continue // allocated in the same round before the go statement
					}
					k++
					bad++
					c.S.Bad(id, fmt.Sprintf("%s:go#%d", fnName(fn), k), c.Pos(g.Pos()), fmt.Sprintf("%s starts a goroutine that reads the variable %s, which the function assigns again at %s while the goroutine may still be running", fnName(fn), al.Comment, c.Pos(st.Pos())))
					break
				}
			}
		}
	}
	if bad == 0 {
		if n == 0 {
			c.S.Undecided(id, "none", "-", "no goroutine started with a function literal")
		} else {
			c.S.OK(id, "all", "-", fmt.Sprintf("%d goroutine(s) started with a function literal: none captures a variable that is assigned again afterwards", n))
		}
	}
}

// ---------------------------------------------------------------- R-C19-walk-continues

const textWalkContinues = "R-C19-walk-continues: a file that is not a snapshot does not stop the start-up walk: the callback of the directory walk returns a non-nil error only when loading a snapshot failed (the value a call that reaches the loader returned) — never the error of parsing a file name. `return parseErr` for a leftover `base.db0.tmp` ends the walk, and every database whose file sorts after it comes up empty"

func ruleC19WalkContinues(c *Ctx) {
	const id = "R-C19-walk-continues"
	c.S.Rule(id, textWalkContinues, 1)
	pa := c.persist()
	if len(pa.errs) > 0 {
		c.S.Undecided(id, "anchors", "-", pa.errs[0])
		return
	}
	n := 0
	for _, fn := range c.SrcFuncs() {
		for _, in := range instrsOf(fn) {
			call, ok := in.(*ssa.Call)
			if !ok || (fullCalleeName(call) != "path/filepath.WalkDir" && fullCalleeName(call) != "path/filepath.Walk") {
				continue
			}
			for _, a := range call.Call.Args {
				if ct, ok := a.(*ssa.ChangeType); ok {
					a = ct.X
				}
				var cb *ssa.Function
				switch x := a.(type) {
				case *ssa.MakeClosure:
					cb, _ = x.Fn.(*ssa.Function)
					// a bound method value: the method it wraps
					if cb != nil && cb.Synthetic != "" && len(cb.Blocks) == 1 {
						for _, in2 := range cb.Blocks[0].Instrs {
							if c2, ok := in2.(*ssa.Call); ok && c2.Call.StaticCallee() != nil {
								cb = c2.Call.StaticCallee()
							}
						}
					}
				case *ssa.Function:
					cb = x
				}
				if cb == nil || !c.InPkg(cb) || !(cb == pa.loader || c.M.Reach(cb)[pa.loader]) {
					continue
				}
				n++
				key := fnName(cb) + ":returns"
				bad := ""
				for _, b := range cb.Blocks {
					ret, ok := b.Instrs[len(b.Instrs)-1].(*ssa.Return)
					if !ok || len(ret.Results) != 1 {
						continue
					}
					for _, leaf := range phiLeaves(ret.Results[0], map[ssa.Value]bool{}) {
						leaf = resolveLocal(leaf)
						if isNilConst(leaf) {
							continue
						}
						okLeaf := false
						switch x := leaf.(type) {
						case *ssa.Call:
							if g := x.Call.StaticCallee(); g != nil && c.InPkg(g) && (g == pa.loader || c.M.Reach(g)[pa.loader]) {
								okLeaf = true
							}
						case *ssa.Extract:
							if cl, ok := x.Tuple.(*ssa.Call); ok {
								if g := cl.Call.StaticCallee(); g != nil && c.InPkg(g) && (g == pa.loader || c.M.Reach(g)[pa.loader]) {
									okLeaf = true
								}
							}
						}
						if !okLeaf {
							bad = c.Pos(c.InstrPos(ret))
						}
					}
				}
				if bad != "" {
					c.S.Bad(id, key, c.Pos(cb.Pos()), fmt.Sprintf("%s, the callback of the start-up walk, returns (at %s) an error that does not come from loading a snapshot: one odd file name ends the walk and the databases behind it are not loaded", fnName(cb), bad))
				} else {
					c.S.OK(id, key, c.Pos(cb.Pos()), "non-nil only when a load failed")
				}
			}
		}
	}
	if n == 0 {
		c.S.Undecided(id, "none", "-", "no directory walk whose callback reaches the loader")
	}
}

// ---------------------------------------------------------------- R-C19-header-count

const textHeaderCount = "R-C19-header-count: the number of records the snapshot header announces is the number the writer emits: the count field of the header is the dictionary's element count itself (through conversions), not a value computed from it. The writer emits every stored entry; a header that announces `count - removals` makes the loader stop early, and keys that were never deleted are missing after the restart"

func ruleC19HeaderCount(c *Ctx) {
	const id = "R-C19-header-count"
	c.S.Rule(id, textHeaderCount, 1)
	pa := c.persist()
	fCount := c.Field("redisDict", "count")
	if len(pa.errs) > 0 || fCount == nil {
		c.S.Undecided(id, "anchors", "-", "writer / redisDict.count not found")
		return
	}
	// the header type: the struct the writer encodes first, that has an unsigned/integer field the loader uses as loop bound
	n := 0
	for _, fn := range c.helperClosure(pa.writer, 2) {
		k := 0
		for _, in := range instrsOf(fn) {
			st, ok := in.(*ssa.Store)
			if !ok {
				continue
			}
			fa, ok := st.Addr.(*ssa.FieldAddr)
			if !ok {
				continue
			}
			f := fieldOf(fa)
			owner := c.ownerName(f)
			if owner != "persistHeader" && !(len(owner) > 7 && owner[:7] == "persist" && f.Name() == "Count") {
				continue
			}
			bt, isB := f.Type().Underlying().(*types.Basic)
			if !isB || bt.Info()&types.IsInteger == 0 {
				continue
			}
			// only the field that is derived from the dictionary's count at all
			derives := false
			exact := false
			v := st.Val
			var rec func(x ssa.Value, d int, pure bool)
			rec = func(x ssa.Value, d int, pure bool) {
				if d > 6 || x == nil {
					return
				}
				switch y := x.(type) {
				case *ssa.Convert:
					rec(y.X, d+1, pure)
				case *ssa.ChangeType:
					rec(y.X, d+1, pure)
				case *ssa.BinOp:
					rec(y.X, d+1, false)
					rec(y.Y, d+1, false)
				case *ssa.UnOp:
					if _, ff := loadedField(y); ff == fCount {
						derives = true
						if pure {
							exact = true
						}
					}
				}
			}
			rec(v, 0, true)
			if !derives {
				continue
			}
			k++
			n++
			key := fmt.Sprintf("%s:%s#%d", fnName(fn), f.Name(), k)
			if exact {
				c.S.OK(id, key, c.Pos(st.Pos()), "the announced count is the dictionary's element count")
			} else {
				c.S.Bad(id, key, c.Pos(st.Pos()), fmt.Sprintf("%s announces a record count that is computed from the dictionary's count, while it emits a record for every stored entry: the loader stops early (or runs into the end of the file)", fnName(fn)))
			}
		}
	}
	if n == 0 {
		c.S.Undecided(id, "none", "-", "no header field set from the dictionary's count in the writer")
	}
}

// ---------------------------------------------------------------- R-C19-load-record-complete

const textLoadRecordComplete = "R-C19-load-record-complete: the snapshot is a stream: the loader reads every record completely — in its record loop every path from the decoding of a key header back to the head of the loop decodes the payload as well (or leaves the loop with an error). Skipping the payload of a record that is not wanted (an expired key) leaves the decoder in the middle of the stream: the next header is garbage, the load fails and the database comes up empty"

func ruleC19LoadRecordComplete(c *Ctx) {
	const id = "R-C19-load-record-complete"
	c.S.Rule(id, textLoadRecordComplete, 0)
	pa := c.persist()
	if len(pa.errs) > 0 {
		c.S.Undecided(id, "anchors", "-", pa.errs[0])
		return
	}
	isDecode := func(in ssa.Instruction) bool {
		call, ok := in.(*ssa.Call)
		if !ok {
			return false
		}
		if fullCalleeName(call) == "(*encoding/gob.Decoder).Decode" {
			return true
		}
		// a helper of the loader that decodes
		if g := call.Call.StaticCallee(); g != nil && c.InPkg(g) && g != pa.loader {
			for _, in2 := range instrsOf(g) {
				if c2, ok := in2.(*ssa.Call); ok && fullCalleeName(c2) == "(*encoding/gob.Decoder).Decode" {
					return true
				}
			}
		}
		return false
	}
	n := 0
	for _, fn := range c.helperClosure(pa.loader, 2) {
		k := 0
		for _, b := range fn.Blocks {
			if !blockInCycle(b) {
				continue
			}
			for i, in := range b.Instrs {
				if !isDecode(in) {
					continue
				}
				// the first decode of the loop body: no other decode dominates it inside the loop
				first := true
				for _, b2 := range fn.Blocks {
					if !blockInCycle(b2) || !blockReaches(b2, b) && b2 != b {
						continue
					}
					for j, in2 := range b2.Instrs {
						if in2 != in && isDecode(in2) && (b2 != b && b2.Dominates(b) && blockReaches(b, b2) || b2 == b && j < i) {
							first = false
						}
					}
				}
				if !first {
					continue
				}
				// is there a second decode in the loop at all (a record with a payload)?
				has2 := false
				for _, b2 := range fn.Blocks {
					if b2 == b || (blockReaches(b, b2) && blockReaches(b2, b)) {
						for _, in2 := range b2.Instrs {
							if in2 != in && isDecode(in2) {
								has2 = true
							}
						}
					}
				}
				if !has2 {
					continue
				}
				k++
				n++
				key := fmt.Sprintf("%s:record#%d", fnName(fn), k)
				bad := false
				seen := map[*ssa.BasicBlock]bool{}
				var walk func(blk *ssa.BasicBlock, start int)
				walk = func(blk *ssa.BasicBlock, start int) {
					for _, in2 := range blk.Instrs[start:] {
						if isDecode(in2) {
							return
						}
					}
					for _, s := range blk.Succs {
						if s == b {
							bad = true // back at the header decode without a payload decode
							return
						}
						if !seen[s] && blockReaches(s, b) {
							seen[s] = true
							walk(s, 0)
						}
					}
				}
				walk(b, i+1)
				if bad {
					c.S.Bad(id, key, c.Pos(in.Pos()), fmt.Sprintf("%s can go on to the next record after decoding a key header without decoding the payload that follows it: the decoder is left in the middle of the stream", fnName(fn)))
				} else {
					c.S.OK(id, key, c.Pos(in.Pos()), "every path to the next record decodes the payload")
				}
			}
		}
	}
	if n == 0 {
		c.S.Trivial(id, "none", "-", "no record loop with a header decode and a payload decode in one function of the loader (the loop has another shape: not decided)")
	}
}

// ---------------------------------------------------------------- R-C10-bump-names-key

const textBumpNamesKey = "R-C10-bump-names-key: the helper that gives a key a new version is told the key's NAME: its argument is a key-name parameter of the calling function (or an element of a key-name list parameter), never a value read out of the database. `modifiedUnlocked(val)` with the string just read gives the new version to a key named like the value — or to nobody: GETEX k EX 10 between WATCH and EXEC goes unnoticed"

func ruleC10BumpNamesKey(c *Ctx) {
	const id = "R-C10-bump-names-key"
	c.S.Rule(id, textBumpNamesKey, 1)
	fID := c.Field("storeKey", "id")
	fCtr := c.Field("dataStore", "dataObjectNumber")
	if fID == nil || fCtr == nil {
		c.S.Undecided(id, "anchors", "-", "storeKey.id / counter not found")
		return
	}
	// the bump helper: method of the command object with one string parameter that stores to storeKey.id
	var bump *ssa.Function
	for _, fn := range c.SrcFuncs() {
		if fn.Signature.Recv() == nil || !c.isPkgType(fn.Signature.Recv().Type(), "dataStoreCommand") || fn.Signature.Params().Len() != 1 || fn.Signature.Results().Len() != 0 {
			continue
		}
		if b, ok := fn.Signature.Params().At(0).Type().Underlying().(*types.Basic); !ok || b.Kind() != types.String {
			continue
		}
		for _, in := range instrsOf(fn) {
			if _, ok := isStoreTo(in, fID); ok {
				bump = fn
			}
		}
	}
	if bump == nil {
		c.S.Undecided(id, "helper", "-", "the version-assigning helper was not found")
		return
	}
	var fromName func(v ssa.Value, d int) bool
	fromName = func(v ssa.Value, d int) bool {
		if d > 6 {
			return false
		}
		v = resolveLocal(v)
		switch x := v.(type) {
		case *ssa.Parameter:
			return true
		case *ssa.FreeVar:
			return true
		case *ssa.Const:
			return true
		case *ssa.Phi:
			for _, e := range x.Edges {
				if !fromName(e, d+1) {
					return false
				}
			}
			return true
		case *ssa.UnOp:
			if ia, ok := x.X.(*ssa.IndexAddr); ok {
				return fromName(ia.X, d+1) // an element of a list of names
			}
			if fa, ok := x.X.(*ssa.FieldAddr); ok {
				// a name kept in a small struct of the function (`uk.keyName`)
				return fromName(fa.X, d+1) || true
			}
		case *ssa.Extract:
			if nx, ok := x.Tuple.(*ssa.Next); ok {
				if r, ok := nx.Iter.(*ssa.Range); ok {
					return fromName(r.X, d+1)
				}
			}
		case *ssa.Slice:
			return fromName(x.X, d+1)
		case *ssa.TypeAssert:
			return fromName(x.X, d+1)
		case *ssa.Index:
			return fromName(x.X, d+1)
		case *ssa.Lookup:
			return fromName(x.X, d+1)
		}
		return false
	}
	n := 0
	for _, fn := range c.SrcFuncs() {
		k := 0
		for _, in := range instrsOf(fn) {
			call, ok := in.(ssa.CallInstruction)
			if !ok || call.Common().StaticCallee() != bump || len(call.Common().Args) < 2 {
				continue
			}
			k++
			n++
			key := fmt.Sprintf("%s:bump#%d", fnName(fn), k)
			arg := call.Common().Args[1]
			// a text made from stored bytes
			bad := false
			switch x := resolveLocal(arg).(type) {
			case *ssa.Convert:
				if _, isSl := x.X.Type().Underlying().(*types.Slice); isSl {
					bad = true
				}
			case *ssa.Call, *ssa.Extract:
				bad = !fromName(arg, 0)
			default:
				bad = !fromName(arg, 0)
			}
			if bad {
				c.S.Bad(id, key, c.Pos(call.Pos()), fmt.Sprintf("%s gives a new version to a key whose name is not one of the key names it was handed (a value read from the database, or a computed text): the key that changed keeps its version", fnName(fn)))
			} else {
				c.S.OK(id, key, c.Pos(call.Pos()), "the name is a key-name parameter (or an element of a list of them)")
			}
		}
	}
	if n == 0 {
		c.S.Undecided(id, "none", "-", "no call of the version-assigning helper")
	}
}

// ---------------------------------------------------------------- R-C14-flushall-each

const textFlushAllEach = "R-C14-flushall-each: FLUSHALL flushes every database: in the handler's loop over the databases, the command object whose flush is called is made from the loop's current database — or is the handler's own, on the side of the test that the current database IS the handler's own. Choosing the handler's own command object for another reason (`if ctx.multi`) flushes the caller's database sixteen times and leaves the others as they are"

func ruleC14FlushAllEach(c *Ctx) {
	const id = "R-C14-flushall-each"
	c.S.Rule(id, textFlushAllEach, 1)
	hs, err := c.M.Handlers()
	fKs := c.Field("dataStore", "data")
	fCtxDsc := c.Field("cmdContext", "dsc")
	fDs := c.Field("dataStoreCommand", "ds")
	if err != nil || hs["flushall"] == nil || fKs == nil || fCtxDsc == nil || fDs == nil {
		c.S.Undecided(id, "anchors", "-", "FLUSHALL handler / fields not found")
		return
	}
	h := hs["flushall"]
	// the flushing method: a method of the command object that stores a new dictionary into the keyspace field
	isFlush := func(g *ssa.Function) bool {
		if g == nil || !c.InPkg(g) {
			return false
		}
		for f := range c.M.Reach(g) {
			for _, in := range instrsOf(f) {
				if st, ok := isStoreTo(in, fKs); ok {
					if fa, ok := st.Addr.(*ssa.FieldAddr); ok && !isFresh(fa.X) {
						return true
					}
				}
			}
		}
		return false
	}
	n := 0
	for _, fn := range c.helperClosure(h, 1) {
		k := 0
		for _, in := range instrsOf(fn) {
			call, ok := in.(*ssa.Call)
			if !ok || !blockInCycle(call.Block()) || len(call.Call.Args) == 0 || !isFlush(call.Call.StaticCallee()) {
				continue
			}
			if !c.isPkgType(call.Call.Args[0].Type(), "dataStoreCommand") {
				continue
			}
			k++
			n++
			key := fmt.Sprintf("%s:flush#%d", fnName(fn), k)
			recv := call.Call.Args[0]
			bad := ""
			// leaves of the receiver with the edge they come in on
			type leaf struct {
				v   ssa.Value
				via *ssa.BasicBlock // predecessor block of the merge the leaf enters through (nil: direct)
			}
			var leaves []leaf
			if phi, ok := recv.(*ssa.Phi); ok {
				for i, e := range phi.Edges {
					leaves = append(leaves, leaf{e, phi.Block().Preds[i]})
				}
			} else {
				leaves = append(leaves, leaf{recv, nil})
			}
			for _, lf := range leaves {
				v := resolveLocal(lf.v)
				if cl, ok := v.(*ssa.Call); ok {
					if g := cl.Call.StaticCallee(); g != nil && g.Signature.Results().Len() == 1 && c.isPkgType(g.Signature.Results().At(0).Type(), "dataStoreCommand") {
						continue // made for a database (R-C16-foreign-db-own-lock and the range rule judge which)
					}
				}
				if _, f := loadedField(v); f == fCtxDsc {
					// the handler's own: only where the current database was found to be the handler's own
					at := call.Block()
					if lf.via != nil {
						at = lf.via
					}
					ownSide := false
					// the merge is entered straight from the comparison: the edge taken is its "is the own one" side
					if lf.via != nil {
						if ifi, ok := lf.via.Instrs[len(lf.via.Instrs)-1].(*ssa.If); ok {
							if bo, ok := ifi.Cond.(*ssa.BinOp); ok && (bo.Op == token.EQL || bo.Op == token.NEQ) {
								_, f1 := loadedField(bo.X)
								_, f2 := loadedField(bo.Y)
								if f1 == fDs || f2 == fDs {
									phi := recv.(*ssa.Phi)
									for si, sc := range lf.via.Succs {
										if sc == phi.Block() && ((bo.Op == token.EQL && si == 0) || (bo.Op == token.NEQ && si == 1)) {
											ownSide = true
										}
									}
								}
							}
						}
					}
					for d := at; d != nil && !ownSide; d = d.Idom() {
						p := d.Idom()
						if p == nil {
							break
						}
						ifi, ok := p.Instrs[len(p.Instrs)-1].(*ssa.If)
						if !ok {
							continue
						}
						bo, ok := ifi.Cond.(*ssa.BinOp)
						if !ok || (bo.Op != token.EQL && bo.Op != token.NEQ) {
							continue
						}
						_, f1 := loadedField(bo.X)
						_, f2 := loadedField(bo.Y)
						if f1 != fDs && f2 != fDs {
							continue
						}
						side := 0
						if bo.Op == token.NEQ {
							side = 1
						}
						sc := p.Succs[side]
						if len(sc.Preds) == 1 && (sc == d || sc.Dominates(at)) {
							ownSide = true
						}
					}
					if !ownSide {
						bad = "the handler's own command object is used for a database that was not compared with the handler's own"
					}
					continue
				}
				bad = "the flushed command object is neither made for the current database nor the handler's own"
			}
			if bad != "" {
				c.S.Bad(id, key, c.Pos(call.Pos()), fmt.Sprintf("%s: in the loop over the databases %s — some databases keep their keys", fnName(fn), bad))
			} else {
				c.S.OK(id, key, c.Pos(call.Pos()), "each round flushes the round's database")
			}
		}
	}
	if n == 0 {
		c.S.Undecided(id, "none", "-", "no flush inside a loop of the FLUSHALL handler")
	}
}

// ---------------------------------------------------------------- R-C15-children-converted

const textChildrenConverted = "R-C15-children-converted: the down-conversion reaches every child: in the helpers that flatten a RESP3 collection for a RESP2 connection, every value that is put into the result (appended, or stored under a key) comes out of the down-converter — on every path, not only when the child is itself a collection. A double, a boolean, a verbatim string or a null that sits as a VALUE in a map would otherwise reach the RESP2 client as `,1.5`, `#t`, `=…`, `_`"

func ruleC15ChildrenConverted(c *Ctx) {
	const id = "R-C15-children-converted"
	c.S.Rule(id, textChildrenConverted, 1)
	var conv *ssa.Function
	for _, sw := range c.respDataSwitches() {
		if sw.fn.Signature.Params().Len() == 1 && sw.fn.Signature.Results().Len() == 1 && sw.fn.Signature.Recv() == nil &&
			c.isPkgType(sw.fn.Signature.Params().At(0).Type(), "respValue") && c.isPkgType(sw.fn.Signature.Results().At(0).Type(), "respValue") {
			conv = sw.fn
		}
	}
	if conv == nil {
		c.S.Undecided(id, "converter", "-", "no respValue→respValue type-switch function found")
		return
	}
	// helpers the converter calls for collections
	var helpers []*ssa.Function
	for _, in := range instrsOf(conv) {
		if call, ok := in.(*ssa.Call); ok {
			if g := call.Call.StaticCallee(); g != nil && c.InPkg(g) && g != conv && g.Blocks != nil {
				hasLoop := false
				for _, b := range g.Blocks {
					if blockInCycle(b) {
						hasLoop = true
					}
				}
				if hasLoop {
					helpers = append(helpers, g)
				}
			}
		}
	}
	sortFns(helpers)
	var fromConv func(v ssa.Value, d int) bool
	fromConv = func(v ssa.Value, d int) bool {
		if d > 8 || v == nil {
			return false
		}
		switch x := v.(type) {
		case *ssa.Call:
			if x.Call.StaticCallee() == conv {
				return true
			}
			// a packing step applied to a converted value (nativeValueToResp(resp3To2(rv))), or to a Go string (a key
			// rendered as text: a bulk string in both protocols)
			for _, a := range x.Call.Args {
				if fromConv(a, d+1) {
					return true
				}
				if mi, ok := a.(*ssa.MakeInterface); ok {
					if b, ok := mi.X.Type().Underlying().(*types.Basic); ok && b.Kind() == types.String {
						return true
					}
				}
			}
			return false
		case *ssa.Lookup:
			// read back from a local map that was filled with converted values
			if mm, ok := x.X.(*ssa.MakeMap); ok {
				n := 0
				for _, r := range referrers(mm) {
					if mu, ok := r.(*ssa.MapUpdate); ok {
						n++
						if !fromConv(mu.Value, d+1) {
							return false
						}
					}
				}
				return n > 0
			}
			return false
		case *ssa.Phi:
			for _, e := range x.Edges {
				if !fromConv(e, d+1) {
					return false
				}
			}
			return true
		case *ssa.MakeInterface:
			return fromConv(x.X, d+1)
		case *ssa.ChangeType:
			return fromConv(x.X, d+1)
		case *ssa.Field:
			return fromConv(x.X, d+1)
		case *ssa.Extract:
			return fromConv(x.Tuple, d+1)
		case *ssa.UnOp:
			if x.Op == token.MUL {
				if al, ok := x.X.(*ssa.Alloc); ok {
					n := 0
					for _, r := range referrers(al) {
						if st, ok := r.(*ssa.Store); ok && st.Addr == ssa.Value(al) {
							n++
							if !fromConv(st.Val, d+1) {
								return false
							}
						}
					}
					return n > 0
				}
				if fa, ok := x.X.(*ssa.FieldAddr); ok {
					return fromConv(fa.X, d+1)
				}
			}
		case *ssa.Alloc:
			n := 0
			for _, r := range referrers(x) {
				if st, ok := r.(*ssa.Store); ok && st.Addr == ssa.Value(x) {
					n++
					if !fromConv(st.Val, d+1) {
						return false
					}
				}
			}
			return n > 0
		}
		return false
	}
	isChildType := func(t types.Type) bool {
		if c.isPkgType(t, "respValue") {
			return true
		}
		_, isIface := t.Underlying().(*types.Interface)
		return isIface
	}
	n := 0
	for _, fn := range helpers {
		k := 0
		if strings.Contains(strings.ToLower(fnName(fn)), "pairs") {
			// pair lists are flattened without conversion: their keys and values are built from dictionary keys/values
			// (bulk strings) — the same statement as in R-C15-closure
			n++
			c.S.Trivial(id, fnName(fn)+":children", c.Pos(fn.Pos()), "pair list: keys and values are bulk strings by construction")
			continue
		}
		for _, in := range instrsOf(fn) {
			if !blockInCycle(in.Block()) {
				continue
			}
			var val ssa.Value
			switch x := in.(type) {
			case *ssa.MapUpdate:
				if isChildType(x.Value.Type()) {
					val = x.Value
				}
			case *ssa.Store:
				// an element of the variadic array of an append
				if ia, ok := x.Addr.(*ssa.IndexAddr); ok {
					if al, ok := ia.X.(*ssa.Alloc); ok && isChildType(x.Val.Type()) {
						for _, r := range referrers(al) {
							if sl, ok := r.(*ssa.Slice); ok {
								for _, r2 := range referrers(sl) {
									if cl, ok := r2.(*ssa.Call); ok {
										if b, ok := cl.Call.Value.(*ssa.Builtin); ok && b.Name() == "append" {
											val = x.Val
										}
									}
								}
							}
						}
					}
				}
			}
			if val == nil {
				continue
			}
			// keys of a flattened map are rendered as text by another step: only values that are replies themselves
			k++
			n++
			key := fmt.Sprintf("%s:child#%d", fnName(fn), k)
			if fromConv(val, 0) {
				c.S.OK(id, key, c.Pos(in.Pos()), "the child comes out of the down-converter")
			} else if _, isC := val.(*ssa.Const); isC {
				c.S.OK(id, key, c.Pos(in.Pos()), "a constant")
			} else {
				c.S.Bad(id, key, c.Pos(in.Pos()), fmt.Sprintf("%s puts a child into the flattened collection that has not passed the down-converter on every path: a RESP3-only scalar inside a collection reaches a RESP2 connection", fnName(fn)))
			}
		}
	}
	if n == 0 {
		c.S.Undecided(id, "none", "-", "no child stores found in the collection helpers of the down-converter")
	}
}

// ---------------------------------------------------------------- R-C15-version-after-handler

const textVersionAfterHandler = "R-C15-version-after-handler: the protocol a reply is rendered in is the connection's protocol AFTER the command ran (HELLO changes it): in the dispatcher no branch that decides about the down-conversion uses a protocol version that was read before the handler was called. A version sampled first makes the reply to HELLO 2 on a RESP3 connection a `%7` map on a connection that speaks RESP2 from then on"

func ruleC15VersionAfterHandler(c *Ctx) {
	const id = "R-C15-version-after-handler"
	c.S.Rule(id, textVersionAfterHandler, 1)
	t := c.txn()
	fVer := c.Field("clientState", "respVersion")
	if t.dispatchHandler == nil || fVer == nil {
		c.S.Undecided(id, "anchors", "-", "dispatchHandler / clientState.respVersion not found")
		return
	}
	dh := t.dispatchHandler
	var hcall ssa.Instruction
	for site := range c.M.Locks().handlerDynSites {
		if site.Parent() == dh {
			hcall = site
		}
	}
	if hcall == nil {
		c.S.Undecided(id, "anchors", "-", "handler call site not found in the dispatcher")
		return
	}
	n := 0
	bad := ""
	readsVer := func(g *ssa.Function) bool {
		if g == nil || g.Blocks == nil || !c.InPkg(g) || g.Signature.Results().Len() == 0 {
			return false
		}
		for _, in := range instrsOf(g) {
			if u, ok := in.(*ssa.UnOp); ok && u.Op == token.MUL {
				if fa, ok := u.X.(*ssa.FieldAddr); ok && fieldOf(fa) == fVer {
					return true
				}
			}
		}
		return false
	}
	for _, in := range instrsOf(dh) {
		var u ssa.Value
		switch x := in.(type) {
		case *ssa.UnOp:
			if x.Op != token.MUL {
				continue
			}
			fa, ok := x.X.(*ssa.FieldAddr)
			if !ok || fieldOf(fa) != fVer {
				continue
			}
			u = x
		case *ssa.Call:
			// a helper that reads the version and answers with (or according to) it: its call is the read
			if in == hcall || !readsVer(x.Call.StaticCallee()) {
				continue
			}
			u = x
		default:
			continue
		}
		n++
		// read before the handler call?
		ui := u.(ssa.Instruction)
		before := ui.Block() == hcall.Block() && instrIndex(ui) < instrIndex(hcall) || ui.Block() != hcall.Block() && blockReaches(ui.Block(), hcall.Block()) && !blockReaches(hcall.Block(), ui.Block())
		if !before {
			continue
		}
		// and used (through comparisons / boolean cells) by a branch after the handler call
		seen := map[ssa.Value]bool{}
		var used func(v ssa.Value, d int) bool
		used = func(v ssa.Value, d int) bool {
			if seen[v] || d > 6 {
				return false
			}
			seen[v] = true
			for _, r := range referrers(v) {
				switch x := r.(type) {
				case *ssa.If:
					if x.Block() == hcall.Block() || blockReaches(hcall.Block(), x.Block()) {
						return true
					}
				case *ssa.BinOp:
					if used(x, d+1) {
						return true
					}
				case *ssa.UnOp:
					if used(x, d+1) {
						return true
					}
				case *ssa.Phi:
					if used(x, d+1) {
						return true
					}
				case *ssa.Store:
					if al, ok := x.Addr.(*ssa.Alloc); ok && x.Val == v {
						for _, r2 := range referrers(al) {
							if ld, ok := r2.(*ssa.UnOp); ok && ld.Op == token.MUL && used(ld, d+1) {
								return true
							}
						}
					}
				}
			}
			return false
		}
		if used(u, 0) {
			bad = c.Pos(ui.Pos())
		}
	}
	key := fnName(dh) + ":version-read"
	switch {
	case n == 0:
		c.S.Undecided(id, key, c.Pos(dh.Pos()), "the dispatcher does not read the protocol version")
	case bad != "":
		c.S.Bad(id, key, bad, fmt.Sprintf("%s reads the protocol version (at %s) before it calls the handler and branches on that value afterwards: the reply of a HELLO that changes the protocol is rendered in the old one", fnName(dh), bad))
	default:
		c.S.OK(id, key, c.Pos(dh.Pos()), "the version that decides about the conversion is read after the handler returned")
	}
}

// ---------------------------------------------------------------- R-C15-hello-reports-new

const textHelloReportsNew = "R-C15-hello-reports-new: HELLO reports the protocol it has just switched to: in the function that stores a new protocol version, no read of the version that goes into the reply can be followed by that store (the reply table is built after the switch). Built first, `proto` is the old version: HELLO 3 answers a RESP3 map that says proto=2"

func ruleC15HelloReportsNew(c *Ctx) {
	const id = "R-C15-hello-reports-new"
	c.S.Rule(id, textHelloReportsNew, 1)
	fVer := c.Field("clientState", "respVersion")
	if fVer == nil {
		c.S.Undecided(id, "anchors", "-", "clientState.respVersion not found")
		return
	}
	n := 0
	for _, fn := range c.SrcFuncs() {
		var stores []*ssa.Store
		for _, in := range instrsOf(fn) {
			if st, ok := isStoreTo(in, fVer); ok {
				if _, isC := constInt(st.Val); !isC {
					stores = append(stores, st)
				}
			}
		}
		if len(stores) == 0 {
			continue
		}
		k := 0
		for _, in := range instrsOf(fn) {
			u, ok := in.(*ssa.UnOp)
			if !ok || u.Op != token.MUL {
				continue
			}
			fa, ok := u.X.(*ssa.FieldAddr)
			if !ok || fieldOf(fa) != fVer {
				continue
			}
			// goes into a reply: boxed or stored into a map / struct (not merely compared)
			reply := false
			for _, r := range referrers(u) {
				switch r.(type) {
				case *ssa.MakeInterface, *ssa.MapUpdate, *ssa.Store, *ssa.Convert:
					reply = true
				}
			}
			if !reply {
				continue
			}
			k++
			n++
			key := fmt.Sprintf("%s:reported-version#%d", fnName(fn), k)
			stale := ""
			for _, st := range stores {
				if (st.Block() == u.Block() && instrIndex(st) > instrIndex(u)) || (st.Block() != u.Block() && blockReaches(u.Block(), st.Block())) {
					stale = c.Pos(st.Pos())
				}
			}
			if stale != "" {
				c.S.Bad(id, key, c.Pos(u.Pos()), fmt.Sprintf("%s reads the protocol version for its reply before it stores the new one (at %s): a HELLO that switches reports the protocol it has just left", fnName(fn), stale))
			} else {
				c.S.OK(id, key, c.Pos(u.Pos()), "the reported version is read after the switch")
			}
		}
	}
	if n == 0 {
		c.S.Trivial(id, "none", "-", "the function that switches the protocol does not put the version into its reply")
	}
}

// ---------------------------------------------------------------- R-C12-always-blocking-path

const textAlwaysBlockingPath = "R-C12-always-blocking-path: a blocking command always goes through the blocking worker: in the handlers of BLPOP, BRPOP, BLMOVE, BLMPOP and BRPOPLPUSH every path to a return either answers an error or has called into the function that registers and waits (which decides itself what a timeout of 0, a transaction or an element at hand mean). A shortcut `if timeout <= 0 { answer like the non-blocking command }` makes BRPOPLPUSH src dst 0 return null at once instead of waiting for ever"

func ruleC12AlwaysBlockingPath(c *Ctx) {
	const id = "R-C12-always-blocking-path"
	c.S.Rule(id, textAlwaysBlockingPath, 1)
	hs, err := c.M.Handlers()
	a := c.blocking()
	if err != nil || len(a.errs) > 0 || a.worker == nil {
		c.S.Undecided(id, "anchors", "-", "handlers / blocking worker not found")
		return
	}
	n := 0
	for _, tok := range []string{"blpop", "brpop", "blmove", "blmpop", "brpoplpush"} {
		h := hs[tok]
		if h == nil {
			continue
		}
		n++
		key := fnName(h) + ":" + tok
		reachesWorker := func(in ssa.Instruction) bool {
			call, ok := in.(ssa.CallInstruction)
			if !ok {
				return false
			}
			for _, g := range c.Callees(call) {
				if g == a.worker || (c.InPkg(g) && c.M.Reach(g)[a.worker]) {
					return true
				}
			}
			return false
		}
		bad := ""
		seen := map[*ssa.BasicBlock]bool{}
		var walk func(b *ssa.BasicBlock)
		walk = func(b *ssa.BasicBlock) {
			if seen[b] {
				return
			}
			seen[b] = true
			for _, in := range b.Instrs {
				if reachesWorker(in) || c.isErrorReplyStore(in) {
					return
				}
				if _, ok := in.(*ssa.Panic); ok {
					return
				}
				if ret, ok := in.(*ssa.Return); ok {
					bad = c.Pos(c.InstrPos(ret))
					return
				}
			}
			for _, s := range b.Succs {
				walk(s)
			}
		}
		walk(h.Blocks[0])
		if bad != "" {
			c.S.Bad(id, key, c.Pos(h.Pos()), fmt.Sprintf("the handler of %s can return (at %s) without an error and without having entered the blocking worker: on that path the command does not wait", tok, bad))
		} else {
			c.S.OK(id, key, c.Pos(h.Pos()), "every non-error path enters the blocking worker")
		}
	}
	if n == 0 {
		c.S.Undecided(id, "none", "-", "no handler of a blocking command found")
	}
}

// ---------------------------------------------------------------- R-C12-deadline-exact

const textDeadlineExact = "R-C12-deadline-exact: a blocking command's deadline is the clock reading plus the timeout, to the nanosecond: nothing reachable from the blocking worker rounds or truncates a time (time.Time.Truncate / Round). A deadline cut to the millisecond that is logged lets every finite timeout fire up to a millisecond early — earlier than the time the client asked for"

func ruleC12DeadlineExact(c *Ctx) {
	const id = "R-C12-deadline-exact"
	c.S.Rule(id, textDeadlineExact, 0)
	a := c.blocking()
	if len(a.errs) > 0 || a.worker == nil {
		c.S.Undecided(id, "anchors", "-", "blocking worker not found")
		return
	}
	scope := map[*ssa.Function]bool{a.worker: true}
	for f := range c.M.Reach(a.worker) {
		scope[f] = true
	}
	for _, f := range a.worker.AnonFuncs {
		scope[f] = true
	}
	bad := 0
	for _, fn := range c.SrcFuncs() {
		if !scope[fn] && !scope[enclosing(fn)] {
			continue
		}
		for _, in := range instrsOf(fn) {
			call, ok := in.(*ssa.Call)
			if !ok {
				continue
			}
			switch fullCalleeName(call) {
			case "(time.Time).Truncate", "(time.Time).Round":
				bad++
				c.S.Bad(id, fmt.Sprintf("%s:rounded#%d", fnName(fn), bad), c.Pos(call.Pos()), fmt.Sprintf("%s rounds a time inside the blocking worker: the deadline of a blocking command moves, and a finite timeout can end early", fnName(fn)))
			}
		}
	}
	if bad == 0 {
		c.S.OK(id, "all", "-", "no time is rounded or truncated in the blocking worker")
	}
}

// ---------------------------------------------------------------- R-C16-global-state-global-lock

const textGlobalStateGlobalLock = "R-C16-global-state-global-lock: state that belongs to the package, not to one database, is not protected by a database's mutex: a package-level struct or array whose fields/elements are written at run time from connection code is written with a package-level mutex held (or only atomically) — the per-database lock only excludes connections of the same database. One shared hasher object filled by every dictionary operation is written concurrently by connections that selected different databases: keys land in wrong buckets"

func ruleC16GlobalStateGlobalLock(c *Ctx) {
	const id = "R-C16-global-state-global-lock"
	c.S.Rule(id, textGlobalStateGlobalLock, 0)
	lm := c.M.Locks()
	rm := c.M.Req()
	conc := map[*ssa.Function]bool{}
	for _, r := range rm.roots {
		for f := range c.M.Reach(r) {
			conc[f] = true
		}
		conc[r] = true
	}
	// lock classes that are package-level mutexes
	var globalMask lockSet
	for _, idx := range lm.byGlob {
		globalMask |= 1 << uint(idx)
	}
	rootGlobal := func(v ssa.Value) *ssa.Global {
		for i := 0; i < 6; i++ {
			switch x := v.(type) {
			case *ssa.FieldAddr:
				v = x.X
			case *ssa.IndexAddr:
				v = x.X
			case *ssa.Global:
				if c.InPkgGlobal(x) {
					return x
				}
				return nil
			default:
				return nil
			}
		}
		return nil
	}
	type st struct {
		pos, fn string
		held    lockSet
		n       int
	}
	by := map[*ssa.Global]*st{}
	for _, fn := range c.SrcFuncs() {
		if !conc[fn] || (fn.Name() == "init" && fn.Parent() == nil) {
			continue
		}
		for _, in := range instrsOf(fn) {
			var g *ssa.Global
			var at ssa.Instruction
			switch x := in.(type) {
			case *ssa.Store:
				if _, direct := x.Addr.(*ssa.Global); direct {
					continue // whole-variable writes: A1-unlisted-global
				}
				g, at = rootGlobal(x.Addr), x
			case *ssa.Call:
				// a method of the variable's type called on the variable itself that writes its receiver's fields
				h := x.Call.StaticCallee()
				if h == nil || !c.InPkg(h) || len(x.Call.Args) == 0 || len(h.Params) == 0 {
					continue
				}
				gg, isG := x.Call.Args[0].(*ssa.Global)
				if !isG || !c.InPkgGlobal(gg) {
					continue
				}
				writes := false
				for f := range c.M.Reach(h) {
					for _, in2 := range instrsOf(f) {
						if s2, ok := in2.(*ssa.Store); ok {
							if fa, ok := s2.Addr.(*ssa.FieldAddr); ok && len(f.Params) > 0 && fa.X == ssa.Value(f.Params[0]) {
								writes = true
							}
						}
					}
				}
				if writes {
					g, at = gg, x
				}
			}
			if g == nil {
				continue
			}
			s := at
			if _, listed := rm.gt.byGlob[g]; listed {
				continue
			}
			e := by[g]
			if e == nil {
				e = &st{held: ^lockSet(0)}
				by[g] = e
			}
			e.n++
			held := lm.LocallyHeld(in)
			// held by every caller (one level)
			if held&globalMask == 0 {
				if node := c.CG.Nodes[fn]; node != nil && len(node.In) > 0 {
					all := ^lockSet(0)
					for _, ed := range node.In {
						if ed.Site == nil {
							all = 0
							continue
						}
						all &= lm.LocallyHeld(ed.Site)
					}
					held |= all
				}
			}
			e.held &= held
			if e.pos == "" {
				e.pos, e.fn = c.Pos(c.InstrPos(s)), fnName(fn)
			}
		}
	}
	var gs []*ssa.Global
	for g := range by {
		gs = append(gs, g)
	}
	for i := 1; i < len(gs); i++ {
		for j := i; j > 0 && gs[j].Name() < gs[j-1].Name(); j-- {
			gs[j], gs[j-1] = gs[j-1], gs[j]
		}
	}
	for _, g := range gs {
		e := by[g]
		key := "global " + g.Name()
		if why, ok := globalAllow[g.Name()]; ok && why != "" {
			continue
		}
		if e.held&globalMask != 0 {
			c.S.OK(id, key, e.pos, "written with a package-level mutex held")
		} else {
			c.S.Bad(id, key, e.pos, fmt.Sprintf("the package-level %s is written field by field from connection code (%s) without a package-level mutex: a database's own lock does not exclude connections of other databases", g.Name(), e.fn))
		}
	}
	if len(gs) == 0 {
		c.S.Trivial(id, "none", "-", "no package-level struct or array is written field by field at run time")
	}
}

// ---------------------------------------------------------------- R-C19-save-not-throttled

const textSaveNotThrottled = "R-C19-save-not-throttled: the last save before the emulator ends is taken whenever it is asked for: the functions on the way from the saver goroutine to the snapshot writer do not read the clock (time.Now / time.Since) to decide whether to save. A pass that returns early because the previous one ended less than half a second ago also swallows the FINAL save, and writes acknowledged in that window are gone after Close"

func ruleC19SaveNotThrottled(c *Ctx) {
	const id = "R-C19-save-not-throttled"
	c.S.Rule(id, textSaveNotThrottled, 1)
	pa := c.persist()
	if len(pa.errs) > 0 {
		c.S.Undecided(id, "anchors", "-", pa.errs[0])
		return
	}
	// functions that reach the writer and are reached from a goroutine entry (the saver), except the command handlers' SAVE
	n, bad := 0, 0
	for _, fn := range c.SrcFuncs() {
		if !(fn == pa.writer || c.M.Reach(fn)[pa.writer]) {
			continue
		}
		if fn.Parent() != nil {
			continue // the goroutine body itself owns the ticker
		}
		isSaverPath := fn.Signature.Recv() != nil && (c.isPkgType(fn.Signature.Recv().Type(), "dataStoreSet") || c.isPkgType(fn.Signature.Recv().Type(), "dataStore") || c.isPkgType(fn.Signature.Recv().Type(), "dataStoreCommand"))
		if !isSaverPath {
			continue
		}
		n++
		for _, in := range instrsOf(fn) {
			call, ok := in.(*ssa.Call)
			if !ok {
				continue
			}
			switch fullCalleeName(call) {
			case "time.Now", "time.Since", "time.Until":
				// used by a branch?
				bad++
				c.S.Bad(id, fmt.Sprintf("%s:clock#%d", fnName(fn), bad), c.Pos(call.Pos()), fmt.Sprintf("%s, on the way from the saver to the snapshot writer, reads the clock: a save that is skipped for reasons of time also skips the final save before the emulator ends", fnName(fn)))
			}
		}
	}
	if bad == 0 {
		if n == 0 {
			c.S.Undecided(id, "none", "-", "no function between the saver and the snapshot writer")
		} else {
			c.S.OK(id, "all", "-", fmt.Sprintf("%d function(s) on the save path, none reads the clock", n))
		}
	}
}

// ---------------------------------------------------------------- R-C20-load-at-start

const textLoadAtStart = "R-C20-load-at-start: an emulator reads its snapshot when it is started, not when it is constructed: the exported constructor does not reach the snapshot loader. Constructed early and started later, an emulator that loaded at construction time comes up with the state of that moment — not with what its predecessor on the same path saved when it was closed — and its saver then overwrites the good snapshot"

func ruleC20LoadAtStart(c *Ctx) {
	const id = "R-C20-load-at-start"
	c.S.Rule(id, textLoadAtStart, 1)
	pa := c.persist()
	if len(pa.errs) > 0 {
		c.S.Undecided(id, "anchors", "-", pa.errs[0])
		return
	}
	n := 0
	for _, fn := range c.SrcFuncs() {
		if fn.Parent() != nil || fn.Object() == nil || !fn.Object().Exported() || fn.Signature.Recv() != nil {
			continue
		}
		res := fn.Signature.Results()
		isCtor := false
		for i := 0; i < res.Len(); i++ {
			if c.isPkgType(res.At(i).Type(), "RedisEmu") {
				isCtor = true
			}
		}
		if !isCtor {
			continue
		}
		// a constructor that also starts the emulator (NewServer-style: it calls the start method) is a start
		starts := false
		for f := range c.M.Reach(fn) {
			for _, in := range instrsOf(f) {
				if call, ok := in.(*ssa.Call); ok && fullCalleeName(call) == "net.Listen" {
					starts = true
				}
			}
		}
		if starts {
			continue
		}
		n++
		key := fnName(fn) + ":constructs-only"
		loads := c.M.Reach(fn)[pa.loader]
		// through a callback handed to a library function (the directory walk)
		for f := range c.M.Reach(fn) {
			for _, in := range instrsOf(f) {
				call, ok := in.(*ssa.Call)
				if !ok {
					continue
				}
				for _, a := range call.Call.Args {
					if ct, ok := a.(*ssa.ChangeType); ok {
						a = ct.X
					}
					var g *ssa.Function
					switch x := a.(type) {
					case *ssa.MakeClosure:
						g, _ = x.Fn.(*ssa.Function)
					case *ssa.Function:
						g = x
					}
					if g != nil && c.InPkg(g) && (g == pa.loader || c.M.Reach(g)[pa.loader]) {
						loads = true
					}
					if g != nil && g.Synthetic != "" && len(g.Blocks) == 1 {
						for _, in2 := range g.Blocks[0].Instrs {
							if c2, ok := in2.(*ssa.Call); ok {
								if h := c2.Call.StaticCallee(); h != nil && c.InPkg(h) && (h == pa.loader || c.M.Reach(h)[pa.loader]) {
									loads = true
								}
							}
						}
					}
				}
			}
		}
		if loads {
			c.S.Bad(id, key, c.Pos(fn.Pos()), fmt.Sprintf("the constructor %s reaches the snapshot loader: the emulator's state is read when it is constructed, not when it is started", fnName(fn)))
		} else {
			c.S.OK(id, key, c.Pos(fn.Pos()), "the constructor does not load")
		}
	}
	if n == 0 {
		c.S.Undecided(id, "none", "-", "no exported constructor of the emulator that does not also start it")
	}
}
