# what is claimed right now (edited as checks become clean on the unchanged tree)
CLAIMED = {}
PENDING = {}
