package redisemu

import "testing"

// C06/C07: SORT … STORE replaces the destination (whatever it held, deadline included) with the
// sorted result; an empty result deletes it.
func TestDemoC07SortStoreReplaces(t *testing.T) {
	s := startDemo(t, "")
	defer s.stop()
	c := s.dial(t)
	c.do("RPUSH", "src", "b")
	c.do("RPUSH", "dst", "old")
	c.do("EXPIRE", "dst", "100")
	expect(t, "SORT src ALPHA STORE dst", c.do("SORT", "src", "ALPHA", "STORE", "dst"), ":1")
	expect(t, "the destination holds the result only", c.do("LRANGE", "dst", "0", "-1"), "[\"b\"]")
	expect(t, "the destination's deadline is gone", c.do("TTL", "dst"), ":-1")
	expect(t, "SORT nokey STORE dst (empty result)", c.do("SORT", "nokey", "STORE", "dst"), ":0")
	expect(t, "the destination was deleted", c.do("EXISTS", "dst"), ":0")
	expect(t, "SORT nokey", c.do("SORT", "nokey"), "[]")
}
