package main

// R-C13-parser-bounds — exact upper bounds for the accesses of the wire parser into its content buffer.
//
// The wire parser is where client-declared lengths meet the bytes that have actually arrived. A8 only asks whether
// some bound exists; here the bound has to be the right one: every index i into the content satisfies i < len(content)
// and every slice end h satisfies h <= len(content), as a consequence of ONE dominating comparison. Expressions are
// normalised to linear forms over symbols (len(content), parameters, loop variables, parser fields with store-to-load
// forwarding inside the function); a requirement L <= k' is discharged by a guard L <= k with the same linear part and
// k <= k'. No solver: coefficient maps are compared syntactically.

import (
	"fmt"
	"go/token"
	"go/types"
	"sort"
	"strconv"
	"strings"

	"golang.org/x/tools/go/ssa"
)

const textParserBounds = "R-C13-parser-bounds: in the wire parser every index into the content buffer is provably < len(content) and every slice end <= len(content) by one dominating comparison whose linear form (over len(content), the parser's position fields, parameters and loop variables) implies it exactly — a declared length is compared with the bytes that have arrived including the terminator; an off-by-one or off-by-two here is an index-out-of-range panic for a frame cut at the wrong byte"

type linExpr struct {
	coef map[string]int64
	k    int64
	ok   bool
}

func (l linExpr) key() string {
	var ks []string
	for s, c := range l.coef {
		if c != 0 {
			ks = append(ks, fmt.Sprintf("%d*%s", c, s))
		}
	}
	sort.Strings(ks)
	return strings.Join(ks, "+")
}

func linAdd(a, b linExpr, sign int64) linExpr {
	if !a.ok || !b.ok {
		return linExpr{}
	}
	r := linExpr{coef: map[string]int64{}, k: a.k + sign*b.k, ok: true}
	for s, c := range a.coef {
		r.coef[s] += c
	}
	for s, c := range b.coef {
		r.coef[s] += sign * c
	}
	return r
}

type linCtx struct {
	c        *Ctx
	fn       *ssa.Function
	fContent *types.Var
	unstable bool // the expression read a parser field whose value this function cannot know
}

// lin: linear form of v at instruction `at` (for store-to-load forwarding of parser fields).
func (lc *linCtx) lin(v ssa.Value, depth int) linExpr {
	if depth > 12 {
		return linExpr{}
	}
	sym := func(s string) linExpr { return linExpr{coef: map[string]int64{s: 1}, ok: true} }
	switch x := v.(type) {
	case *ssa.Const:
		if x.Value == nil {
			return linExpr{}
		}
		return linExpr{coef: map[string]int64{}, k: x.Int64(), ok: true}
	case *ssa.Convert:
		if isNumeric(x.X.Type()) {
			return lc.lin(x.X, depth+1)
		}
	case *ssa.BinOp:
		switch x.Op {
		case token.ADD:
			return linAdd(lc.lin(x.X, depth+1), lc.lin(x.Y, depth+1), 1)
		case token.SUB:
			return linAdd(lc.lin(x.X, depth+1), lc.lin(x.Y, depth+1), -1)
		}
	case *ssa.Parameter:
		return sym("param:" + x.Name())
	case *ssa.Phi:
		return sym("phi:" + x.Name())
	case *ssa.Call:
		if b, ok := x.Call.Value.(*ssa.Builtin); ok && b.Name() == "len" {
			if _, f := loadedField(x.Call.Args[0]); f == lc.fContent {
				return sym("len(content)")
			}
			// the length of something else (a package-level terminator constant such as crlf): a non-negative unknown
			if u, ok := x.Call.Args[0].(*ssa.UnOp); ok {
				if g, ok := u.X.(*ssa.Global); ok {
					return sym("nonneg:len(" + g.Name() + ")")
				}
			}
			if k, ok := x.Call.Args[0].(*ssa.Const); ok && k.Value != nil {
				return linExpr{coef: map[string]int64{}, k: int64(len(constantStringVal(k))), ok: true}
			}
		}
	case *ssa.UnOp:
		if x.Op != token.MUL {
			return linExpr{}
		}
		if fa, ok := x.X.(*ssa.FieldAddr); ok {
			// forward the most recent dominating store to the same field of the same object in this function
			var best *ssa.Store
			for _, in := range instrsOf(lc.fn) {
				st, ok := in.(*ssa.Store)
				if !ok {
					continue
				}
				fa2, ok := st.Addr.(*ssa.FieldAddr)
				if !ok || fa2.Field != fa.Field || fa2.X != fa.X || !instrDominates(st, x) {
					continue
				}
				if best == nil || instrDominates(best, st) {
					best = st
				}
			}
			// or the most recent dominating call of a setter of the field's own struct (`rl.next.set(pos + 2)` where
			// `func (lm *lineMark) set(start int) { lm.start, lm.known = start, true }`): the argument it stores
			var bestCall *ssa.Call
			var bestArg ssa.Value
			sameAddr := func(a, b ssa.Value) bool {
				if a == b {
					return true
				}
				fa1, ok1 := a.(*ssa.FieldAddr)
				fa2, ok2 := b.(*ssa.FieldAddr)
				return ok1 && ok2 && fa1.Field == fa2.Field && fa1.X == fa2.X
			}
			for _, in := range instrsOf(lc.fn) {
				call, ok := in.(*ssa.Call)
				if !ok || !instrDominates(call, x) || len(call.Call.Args) == 0 || !sameAddr(call.Call.Args[0], fa.X) {
					continue
				}
				g := call.Call.StaticCallee()
				if g == nil || !lc.c.InPkg(g) || len(g.Blocks) != 1 || len(g.Params) == 0 {
					continue
				}
				for _, in2 := range g.Blocks[0].Instrs {
					st, ok := in2.(*ssa.Store)
					if !ok {
						continue
					}
					fa2, ok := st.Addr.(*ssa.FieldAddr)
					if !ok || fa2.Field != fa.Field || fa2.X != ssa.Value(g.Params[0]) {
						continue
					}
					for j, prm := range g.Params {
						if st.Val == ssa.Value(prm) && j < len(call.Call.Args) {
							if bestCall == nil || instrDominates(bestCall, call) {
								bestCall, bestArg = call, call.Call.Args[j]
							}
						}
					}
				}
			}
			if bestCall != nil && (best == nil || instrDominates(best, bestCall)) {
				return lc.lin(bestArg, depth+1)
			}
			if best != nil {
				return lc.lin(best.Val, depth+1)
			}
			// a field nobody stores to in this function before the load: stable only if no call lies in between
			// that could change it — positions set by callees are not known here
			for _, in := range instrsOf(lc.fn) {
				if call, ok := in.(*ssa.Call); ok && instrDominates(call, x) {
					if g := call.Call.StaticCallee(); g != nil && lc.c.InPkg(g) && g.Signature.Recv() != nil && lc.c.isPkgType(g.Signature.Recv().Type(), "respDeserializer") {
						lc.unstable = true
					}
				}
			}
			return sym("field:" + fieldOf(fa).Name())
		}
		if al, ok := x.X.(*ssa.Alloc); ok {
			var only ssa.Value
			n := 0
			for _, r := range referrers(al) {
				if st, ok := r.(*ssa.Store); ok && st.Addr == ssa.Value(al) {
					n++
					only = st.Val
				}
			}
			if n == 1 {
				return lc.lin(only, depth+1)
			}
		}
	}
	return linExpr{}
}

// guards: the inequalities  L <= k  that hold at block `at` because of dominating branches.
func (lc *linCtx) guards(at *ssa.BasicBlock) []linExpr {
	var out []linExpr
	for _, b := range lc.fn.Blocks {
		ifi, ok := b.Instrs[len(b.Instrs)-1].(*ssa.If)
		if !ok || b == at || !b.Dominates(at) {
			continue
		}
		bo, ok := ifi.Cond.(*ssa.BinOp)
		if !ok {
			continue
		}
		for si, s := range b.Succs {
			if len(s.Preds) != 1 || !(s == at || s.Dominates(at)) {
				continue
			}
			op := bo.Op
			if si == 1 { // negate
				switch op {
				case token.LSS:
					op = token.GEQ
				case token.LEQ:
					op = token.GTR
				case token.GTR:
					op = token.LEQ
				case token.GEQ:
					op = token.LSS
				default:
					continue
				}
			}
			a, bb := lc.lin(bo.X, 0), lc.lin(bo.Y, 0)
			var d linExpr
			switch op {
			case token.LSS: // a < b   =>  a-b <= -1
				d = linAdd(a, bb, -1)
				d.k = d.k + 1
			case token.LEQ: // a <= b  =>  a-b <= 0
				d = linAdd(a, bb, -1)
			case token.GTR: // a > b   =>  b-a <= -1
				d = linAdd(bb, a, -1)
				d.k = d.k + 1
			case token.GEQ:
				d = linAdd(bb, a, -1)
			default:
				continue
			}
			if d.ok {
				// normal form: (linear part) <= -k   i.e. move the constant to the right-hand side
				out = append(out, linExpr{coef: d.coef, k: -d.k, ok: true})
			}
		}
	}
	return out
}

func ruleParserBounds(c *Ctx) {
	c.S.Rule("R-C13-parser-bounds", textParserBounds, 3)
	nt := c.NamedType("respDeserializer")
	if nt == nil {
		c.S.Undecided("R-C13-parser-bounds", "parser-type", "-", "respDeserializer not found")
		return
	}
	st, _ := nt.Underlying().(*types.Struct)
	var fContent *types.Var
	for i := 0; st != nil && i < st.NumFields(); i++ {
		f := st.Field(i)
		if sl, ok := f.Type().Underlying().(*types.Slice); ok {
			if b, ok := sl.Elem().Underlying().(*types.Basic); ok && b.Kind() == types.Byte {
				fContent = f
			}
		}
	}
	if fContent == nil {
		c.S.Undecided("R-C13-parser-bounds", "content-field", "-", "the parser's content buffer field was not found")
		return
	}
	n := 0
	accesses := 0
	for _, fn := range c.SrcFuncs() {
		if fn.Signature.Recv() == nil || !c.isPkgType(fn.Signature.Recv().Type(), "respDeserializer") {
			continue
		}
		k := 0
		check := func(in ssa.Instruction, bound ssa.Value, what string, strict bool) {
			lc := &linCtx{c: c, fn: fn, fContent: fContent}
			e := lc.lin(bound, 0)
			if !e.ok || lc.unstable {
				return // not a linear form this function determines (a position set by a callee): not decided here
			}
			k++
			n++
			key := fmt.Sprintf("%s:%s#%d", fnName(fn), what, k)
			// requirement:  e < len  (index)  /  e <= len  (slice end)   =>  e - len <= -1 / 0
			req := linAdd(e, linExpr{coef: map[string]int64{"len(content)": 1}, ok: true}, -1)
			need := int64(0)
			if strict {
				need = -1
			}
			need -= req.k // (linear part) <= need
			if len(req.key()) == 0 {
				return
			}
			proved := false
			for _, g := range lc.guards(in.Block()) {
				if g.key() == req.key() && g.k <= need {
					proved = true
				}
				// the guard may carry extra non-negative terms on its left-hand side:  L + n <= k  with n >= 0  gives  L <= k
				if !proved && g.k <= need && dropsOnlyNonNegative(g, req) {
					proved = true
				}
			}
			if proved {
				c.S.OK("R-C13-parser-bounds", key, c.Pos(c.InstrPos(in)), "implied exactly by a dominating comparison")
			} else {
				c.S.Bad("R-C13-parser-bounds", key, c.Pos(c.InstrPos(in)), fmt.Sprintf("%s: the %s %s is not implied by any dominating comparison (needed: %s <= %d): a frame whose last bytes have not arrived yet makes the parser read beyond its buffer", fnName(fn), what, "into the content buffer", req.key(), need))
			}
		}
		for _, in := range instrsOf(fn) {
			switch x := in.(type) {
			case *ssa.IndexAddr:
				if _, f := loadedField(x.X); f == fContent {
					accesses++
					check(in, x.Index, "index", true)
				}
			case *ssa.Slice:
				if _, f := loadedField(x.X); f == fContent {
					accesses++
					if x.High != nil {
						check(in, x.High, "slice-end", false)
					}
				}
			}
		}
	}
	if n == 0 && accesses > 0 {
		// the parser reads its buffer, but none of the bounds is a linear form of the buffer length, the position fields
		// and parameters (positions found by a library search, tests moved into predicates over other variables): this
		// rule decides nothing here and says so; R-C01-frame, R-C13-index0 and A8 judge the same code by other means
		c.S.Trivial("R-C13-parser-bounds", "accesses", "-", fmt.Sprintf("%d access(es) into the parser's buffer, none with a bound inside the linear fragment: not decided by this rule", accesses))
	} else if n == 0 {
		c.S.Undecided("R-C13-parser-bounds", "accesses", "-", "no decidable access into the parser's content buffer found")
	}
}

// dropsOnlyNonNegative: g's linear part equals r's plus terms with positive coefficients on symbols known to be >= 0.
func dropsOnlyNonNegative(g, r linExpr) bool {
	extra := false
	for sym, c := range g.coef {
		d := c - r.coef[sym]
		if d == 0 {
			continue
		}
		if d > 0 && strings.HasPrefix(sym, "nonneg:") {
			extra = true
			continue
		}
		return false
	}
	for sym, c := range r.coef {
		if _, ok := g.coef[sym]; !ok && c != 0 {
			return false
		}
	}
	return extra
}

func constantStringVal(k *ssa.Const) string {
	s := k.Value.ExactString()
	if len(s) >= 2 && s[0] == '"' {
		if u, err := strconvUnquote(s); err == nil {
			return u
		}
	}
	return s
}

func strconvUnquote(s string) (string, error) { return strconv.Unquote(s) }
