package redisemu

import "testing"

// C05: Redis 7 looks at every operand of SINTER / SDIFF / SINTERCARD (and the STORE forms) before it
// answers: a key of the wrong type is WRONGTYPE also when a missing key comes before it.
func TestDemoC05OperandTypesChecked(t *testing.T) {
	s := startDemo(t, "")
	defer s.stop()
	c := s.dial(t)
	c.do("SADD", "s1", "a", "b")
	c.do("SET", "str", "x")
	const wt = "-WRONGTYPE Operation against a key holding the wrong kind of value"
	expect(t, "SINTER nokey str", c.do("SINTER", "nokey", "str"), wt)
	expect(t, "SINTER s1 nokey str", c.do("SINTER", "s1", "nokey", "str"), wt)
	expect(t, "SDIFF nokey str", c.do("SDIFF", "nokey", "str"), wt)
	expect(t, "SINTERCARD 2 nokey str", c.do("SINTERCARD", "2", "nokey", "str"), wt)
	expect(t, "SINTERSTORE d nokey str", c.do("SINTERSTORE", "d", "nokey", "str"), wt)
	expect(t, "SDIFFSTORE d nokey str", c.do("SDIFFSTORE", "d", "nokey", "str"), wt)
	// and the results are still right
	expect(t, "SINTER s1 nokey", c.do("SINTER", "s1", "nokey"), "[]")
	expect(t, "SDIFF nokey s1", c.do("SDIFF", "nokey", "s1"), "[]")
	expect(t, "SINTERCARD 2 s1 nokey", c.do("SINTERCARD", "2", "s1", "nokey"), ":0")
	expect(t, "SDIFF s1 nokey (both members)", c.do("SCARD", "s1"), ":2")
}
