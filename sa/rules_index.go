package main

// R-C13-index0 — constant-index accesses need a dominating length guard.

import (
	"fmt"
	"go/constant"
	"go/token"
	"go/types"
	"strings"

	"golang.org/x/tools/go/ssa"
)

const textIndex0 = "R-C13-index0: in the code that parses bytes received from a client (the wire deserializer and the connection loop), every access x[c] with a constant index into a slice or string whose length comes from the input is dominated by a test that establishes len(x) > c (on the edge taken), or x is known non-empty by construction — a blank line, an empty bulk or a short frame must produce a protocol error, not an index-out-of-range panic that kills the process"

// lenGuard: does the edge into blk (from the dominating If in b) establish len(x) > c ?
func lenEstablished(x ssa.Value, c int64, at *ssa.BasicBlock) bool {
	same := func(v ssa.Value) bool {
		if v == x {
			return true
		}
		// reloads of the same field/local
		u1, ok1 := v.(*ssa.UnOp)
		u2, ok2 := x.(*ssa.UnOp)
		if ok1 && ok2 && u1.Op == token.MUL && u2.Op == token.MUL {
			if u1.X == u2.X {
				return true
			}
			f1, okf1 := u1.X.(*ssa.FieldAddr)
			f2, okf2 := u2.X.(*ssa.FieldAddr)
			if okf1 && okf2 && f1.Field == f2.Field && f1.X == f2.X {
				return true
			}
		}
		return false
	}
	off := int64(0) // len(y) with y = x[a:]  =>  len(x) = len(y) + a
	isLen := func(v ssa.Value) bool {
		call, ok := v.(*ssa.Call)
		if !ok {
			return false
		}
		b, ok := call.Call.Value.(*ssa.Builtin)
		if !ok || b.Name() != "len" {
			return false
		}
		a := call.Call.Args[0]
		off = 0
		if same(a) {
			return true
		}
		if sl, ok := a.(*ssa.Slice); ok && sl.High == nil && sl.Low != nil && same(sl.X) {
			if k, isC := constInt(sl.Low); isC {
				off = k
				return true
			}
		}
		// x = a[:len(a)-k]  =>  len(x) = len(a) - k
		if xs, ok := x.(*ssa.Slice); ok && xs.Low == nil && xs.High != nil {
			if bo, ok := xs.High.(*ssa.BinOp); ok && bo.Op == token.SUB {
				if k, isC := constInt(bo.Y); isC {
					if lc, ok := bo.X.(*ssa.Call); ok {
						if bb, ok := lc.Call.Value.(*ssa.Builtin); ok && bb.Name() == "len" && lc.Call.Args[0] == xs.X && (a == xs.X) {
							off = -k
							return true
						}
					}
				}
			}
		}
		return false
	}
	fn := at.Parent()
	for _, b := range fn.Blocks {
		ifi, ok := b.Instrs[len(b.Instrs)-1].(*ssa.If)
		if !ok || !b.Dominates(at) || b == at {
			continue
		}
		bo, ok := ifi.Cond.(*ssa.BinOp)
		if !ok {
			continue
		}
		// normalise to  len OP k
		var k int64
		var op token.Token
		if isLen(bo.X) {
			kk, isC := constInt(bo.Y)
			if !isC {
				continue
			}
			k, op = kk, bo.Op
		} else if isLen(bo.Y) {
			kk, isC := constInt(bo.X)
			if !isC {
				continue
			}
			k = kk
			switch bo.Op {
			case token.LSS:
				op = token.GTR
			case token.LEQ:
				op = token.GEQ
			case token.GTR:
				op = token.LSS
			case token.GEQ:
				op = token.LEQ
			default:
				op = bo.Op
			}
		} else {
			continue
		}
		// which successor do we come through?
		for i, s := range b.Succs {
			if !(s == at || s.Dominates(at)) || len(s.Preds) != 1 {
				continue
			}
			truth := i == 0
			ok := false
			c := c - off
			switch op {
			case token.GTR: // len > k
				ok = truth && k >= c
			case token.GEQ: // len >= k
				ok = truth && k > c
			case token.LSS: // len < k  false => len >= k
				ok = !truth && k > c
			case token.LEQ: // len <= k false => len > k
				ok = !truth && k >= c
			case token.EQL: // len == k
				ok = (truth && k > c) || (!truth && k == 0 && c == 0)
			case token.NEQ:
				ok = (!truth && k > c) || (truth && k == 0 && c == 0)
			}
			if ok {
				return true
			}
		}
	}
	return false
}

func ruleIndex0(scopeFiles ...string) func(c *Ctx) {
	return func(c *Ctx) {
		c.S.Rule("R-C13-index0", textIndex0, 3)
		inScope := fileScope(c, scopeFiles...)
		for _, fn := range c.SrcFuncs() {
			// the wire-facing files, plus every function that decodes a binary payload handed in by a client
			// (it calls encoding/binary: RESTORE)
			// elsewhere: functions that take argument text as a string parameter and index it (parsers of an encoding,
			// an offset specification): only accesses to that parameter are judged there
			paramOnly := false
			if !inScope(fnName(fn)) && !decodesBinary(fn) {
				paramOnly = true
			}
			n := 0
			for _, in := range instrsOf(fn) {
				var x, idx ssa.Value
				switch v := in.(type) {
				case *ssa.IndexAddr:
					x, idx = v.X, v.Index
				case *ssa.Lookup:
					if _, isMap := v.X.Type().Underlying().(*types.Map); isMap {
						continue
					}
					x, idx = v.X, v.Index
				case *ssa.Index:
					x, idx = v.X, v.Index
				case *ssa.Slice:
					// x[k:] / x[:k] with a constant bound needs len(x) >= k
					var b ssa.Value
					if v.Low != nil {
						b = v.Low
					}
					if v.High != nil {
						b = v.High
					}
					if kk, isC := constInt(b); b != nil && isC && kk >= 1 {
						x, idx = v.X, ssa.NewConst(constantInt(kk-1), types.Typ[types.Int])
					} else {
						continue
					}
				default:
					continue
				}
				k, isC := constInt(idx)
				if !isC {
					continue
				}
				if paramOnly {
					p, isParam := x.(*ssa.Parameter)
					if !isParam {
						continue
					}
					if b, ok := p.Type().Underlying().(*types.Basic); !ok || b.Info()&types.IsString == 0 {
						continue
					}
				}
				switch t := x.Type().Underlying().(type) {
				case *types.Pointer:
					if _, isArr := t.Elem().Underlying().(*types.Array); isArr {
						continue // fixed-size array
					}
				case *types.Array:
					continue
				}
				n++
				key := fmt.Sprintf("%s:%s[%d]#%d", fnName(fn), strings.TrimPrefix(types.ExprString(nil), "<nil>"), k, n)
				key = fmt.Sprintf("%s:const-index[%d]#%d", fnName(fn), k, n)
				switch {
				case paramEstablished(c, x, k, 0) || appendedFromGuarded(x, in.Block()):
					c.S.OK("R-C13-index0", key, c.Pos(c.InstrPos(in)), "the length is established at every call site (or the slice has one element per element of a slice tested non-empty)")
				case knownLen(x) > k:
					c.S.Trivial("R-C13-index0", key, c.Pos(c.InstrPos(in)), "the indexed value has a statically known length")
				case lenEstablished(x, k, in.Block()):
					c.S.OK("R-C13-index0", key, c.Pos(c.InstrPos(in)), "dominated by a length test")
				case prefixEstablished(x, k, in.Block(), 0):
					c.S.OK("R-C13-index0", key, c.Pos(c.InstrPos(in)), "every way in passes a successful strings.HasPrefix with a long enough prefix")
				default:
					c.S.Bad("R-C13-index0", key, c.Pos(c.InstrPos(in)), fmt.Sprintf("%s indexes [%d] into a value whose length comes from the client without a dominating length test: an empty/short input panics with index out of range", fnName(fn), k))
				}
			}
		}
	}
}

// prefixEstablished: every way into blk passes the true side of strings.HasPrefix(x, "…") with a constant prefix longer
// than k (so len(x) > k), directly or on each of the merged branches.
func prefixEstablished(x ssa.Value, k int64, blk *ssa.BasicBlock, depth int) bool {
	if depth > 4 {
		return false
	}
	edgeOK := func(d, s *ssa.BasicBlock) bool {
		ifi, ok := d.Instrs[len(d.Instrs)-1].(*ssa.If)
		if !ok || len(d.Succs) != 2 || d.Succs[0] == d.Succs[1] {
			return false
		}
		cond, neg := ifi.Cond, false
		for {
			u, ok := cond.(*ssa.UnOp)
			if !ok || u.Op != token.NOT {
				break
			}
			cond, neg = u.X, !neg
		}
		call, ok := cond.(*ssa.Call)
		if !ok {
			return false
		}
		g := call.Call.StaticCallee()
		if g == nil || g.String() != "strings.HasPrefix" || len(call.Call.Args) != 2 || call.Call.Args[0] != x {
			return false
		}
		cst, ok := call.Call.Args[1].(*ssa.Const)
		if !ok || cst.Value == nil {
			return false
		}
		plen := int64(len(cst.Value.ExactString()) - 2)
		if plen <= k {
			return false
		}
		trueSide := d.Succs[0] == s
		return trueSide != neg
	}
	for b := blk; b != nil && b.Idom() != nil; b = b.Idom() {
		d := b.Idom()
		for _, s := range d.Succs {
			if (s == b || s.Dominates(b)) && len(s.Preds) == 1 && edgeOK(d, s) {
				return true
			}
		}
	}
	// a merge: every predecessor edge establishes it
	if len(blk.Preds) < 2 {
		return false
	}
	for _, p := range blk.Preds {
		if edgeOK(p, blk) {
			continue
		}
		if p.Dominates(blk) && p != blk && !blk.Dominates(p) && prefixEstablished(x, k, p, depth+1) {
			continue
		}
		if !blk.Dominates(p) && prefixEstablished(x, k, p, depth+1) {
			continue
		}
		return false
	}
	return true
}

// knownLen: statically known minimum length (literal slices, make with a constant, string constants, varargs packs).
func knownLen(v ssa.Value) int64 {
	switch x := v.(type) {
	case *ssa.Const:
		if x.Value != nil && x.Value.Kind().String() == "String" {
			return int64(len(x.Value.ExactString()) - 2)
		}
	case *ssa.MakeSlice:
		if k, ok := constInt(x.Len); ok {
			return k
		}
	case *ssa.Slice:
		if al, ok := x.X.(*ssa.Alloc); ok {
			if p, ok := al.Type().Underlying().(*types.Pointer); ok {
				if arr, ok := p.Elem().Underlying().(*types.Array); ok {
					return arr.Len()
				}
			}
		}
	}
	return -1
}

func constantInt(k int64) constant.Value { return constant.MakeInt64(k) }

// paramEstablished: x is a parameter and every (static) call site passes a value whose length is established there.
func paramEstablished(c *Ctx, x ssa.Value, k int64, depth int) bool {
	p, ok := x.(*ssa.Parameter)
	if !ok || depth > 7 { // (reader table → thunk → reader → readSize → getCount → getCount64 is five levels)
		return false
	}
	fn := p.Parent()
	idx := -1
	for i, q := range fn.Params {
		if q == p {
			idx = i
		}
	}
	node := c.CG.Nodes[fn]
	if node == nil || idx < 0 || len(node.In) == 0 {
		return false
	}
	for _, e := range node.In {
		cc := e.Site.Common()
		if cc.IsInvoke() || idx >= len(cc.Args) {
			return false
		}
		a := cc.Args[idx]
		if knownLen(a) > k || lenEstablished(a, k, e.Site.Block()) || paramEstablished(c, a, k, depth+1) {
			continue
		}
		// an index a[j] with j <= k evaluated before the call in a dominating position proves len > j only if j >= k
		if indexedBefore(a, k, e.Site) {
			continue
		}
		return false
	}
	return true
}

// indexedBefore: the same value was already indexed at a position >= k on the way to the call (it would have panicked there).
func indexedBefore(a ssa.Value, k int64, site ssa.CallInstruction) bool {
	fn := site.Parent()
	for _, in := range instrsOf(fn) {
		ix, ok := in.(*ssa.Index)
		if !ok || ix.X != a {
			continue
		}
		if j, isC := constInt(ix.Index); isC && j >= k && instrDominates(in, site) {
			return true
		}
	}
	return false
}

// appendedFromGuarded: x is the accumulator of a loop `for … range y { x = append(x, …) }` and len(y) > 0 is established
// where x is used (index 0 only).
func appendedFromGuarded(x ssa.Value, at *ssa.BasicBlock) bool {
	phi, ok := x.(*ssa.Phi)
	if !ok {
		return false
	}
	for _, e := range phi.Edges {
		call, ok := e.(*ssa.Call)
		if !ok {
			continue
		}
		if b, isB := call.Call.Value.(*ssa.Builtin); !isB || b.Name() != "append" {
			continue
		}
		// the loop header is the phi's block: its condition compares with len(y)
		h := phi.Block()
		ifi, ok := h.Instrs[len(h.Instrs)-1].(*ssa.If)
		if !ok {
			continue
		}
		bo, ok := ifi.Cond.(*ssa.BinOp)
		if !ok || bo.Op != token.LSS {
			continue
		}
		lc, ok := bo.Y.(*ssa.Call)
		if !ok {
			continue
		}
		if b, isB := lc.Call.Value.(*ssa.Builtin); !isB || b.Name() != "len" {
			continue
		}
		y := lc.Call.Args[0]
		// the append lies on every path through the loop body that comes back to the header
		body := h.Succs[0]
		if !(call.Block() == body || body.Dominates(call.Block())) {
			continue
		}
		okAll := true
		for i, pr := range h.Preds {
			if pr == h || h.Dominates(pr) { // back edge
				if !(call.Block() == pr || call.Block().Dominates(pr)) || phi.Edges[i] != ssa.Value(call) {
					okAll = false
				}
			}
		}
		if okAll && lenEstablished(y, 0, at) {
			return true
		}
	}
	return false
}

const textValidateAll = "R-C13-validate-all: a loop that validates the client-supplied fields of the elements of a slice (a range test on a field of the loop element whose failing side leaves the function with an error) validates every element: the test dominates every back edge of its loop — no `continue` for some kind of element (e.g. read-only sub-operations) jumps over it, because the unchecked elements are used by the same code later"

func ruleValidateAll(c *Ctx) {
	c.S.Rule("R-C13-validate-all", textValidateAll, 1)
	n := 0
	for _, fn := range c.SrcFuncs() {
		if len(fn.Blocks) == 0 {
			continue
		}
		k := 0
		for _, g := range fn.Blocks {
			ifi, ok := g.Instrs[len(g.Instrs)-1].(*ssa.If)
			if !ok || !blockInCycle(g) {
				continue
			}
			// condition: comparison(s) of a field of a loop element with a constant / another field
			fld := guardedElementField(ifi.Cond, 0)
			if fld == "" {
				continue
			}
			// one side leaves the function (error return) without coming back to the loop
			exits := false
			for _, s := range g.Succs {
				if !plainReachAvoid(s, g, nil) && leadsToErrorReturn(c, s) {
					exits = true
				}
			}
			if !exits {
				continue
			}
			// loop header: the block of the same cycle that dominates g and has a predecessor inside the cycle
			var header *ssa.BasicBlock
			for _, h := range fn.Blocks {
				if !(h.Dominates(g) || h == g) || !plainReachAvoid(g, h, nil) {
					continue
				}
				for _, p := range h.Preds {
					// a natural loop header has a back edge: a predecessor it dominates
					if (p == h || h.Dominates(p)) && (header == nil || header.Dominates(h)) {
						header = h
					}
				}
			}
			if header == nil {
				continue
			}
			k++
			n++
			key := fmt.Sprintf("%s:validation-of-%s#%d", fnName(fn), fld, k)
			skipped := false
			for _, p := range header.Preds {
				if !(p == header || header.Dominates(p)) {
					continue // entry edge
				}
				if !(g == p || g.Dominates(p)) {
					skipped = true
				}
			}
			if skipped {
				c.S.Bad("R-C13-validate-all", key, c.Pos(c.InstrPos(ifi)), fmt.Sprintf("%s validates %s of the elements it loops over, but some path through the loop body reaches the next iteration without passing the test: elements of that kind are used unchecked (a negative offset indexes in front of the array)", fnName(fn), fld))
			} else {
				c.S.OK("R-C13-validate-all", key, c.Pos(c.InstrPos(ifi)), "the range test lies on every path through the loop body")
			}
		}
	}
	if n == 0 {
		c.S.Undecided("R-C13-validate-all", "instances", "-", "no validation loop over client-supplied elements found (BITFIELD's offset check was expected)")
	}
}

// guardedElementField: the condition compares (possibly in an || / && chain already split into blocks) a field of a
// struct reached through a loop element with a constant or another such field; returns the field name.
func guardedElementField(v ssa.Value, d int) string {
	if d > 4 {
		return ""
	}
	bo, ok := v.(*ssa.BinOp)
	if !ok {
		return ""
	}
	switch bo.Op {
	case token.LSS, token.LEQ, token.GTR, token.GEQ:
	default:
		return ""
	}
	isElemField := func(x ssa.Value) string {
		for i := 0; i < 3; i++ {
			if cv, ok := x.(*ssa.Convert); ok {
				x = cv.X
				continue
			}
			break
		}
		u, ok := x.(*ssa.UnOp)
		if !ok {
			return ""
		}
		fa, ok := u.X.(*ssa.FieldAddr)
		if !ok {
			return ""
		}
		// the struct pointer is an element loaded from a slice (range element)
		base, ok := fa.X.(*ssa.UnOp)
		if !ok {
			return ""
		}
		if _, ok := base.X.(*ssa.IndexAddr); !ok {
			return ""
		}
		if b, ok := u.Type().Underlying().(*types.Basic); !ok || b.Info()&types.IsInteger == 0 {
			return ""
		}
		return fieldOf(fa).Name()
	}
	if f := isElemField(bo.X); f != "" {
		if _, isC := bo.Y.(*ssa.Const); isC {
			return f
		}
		if isElemField(bo.Y) != "" {
			return f
		}
	}
	if f := isElemField(bo.Y); f != "" {
		if _, isC := bo.X.(*ssa.Const); isC {
			return f
		}
	}
	return ""
}

// leadsToErrorReturn: from b a return is reached, and on the way an error reply is produced.
func leadsToErrorReturn(c *Ctx, b *ssa.BasicBlock) bool {
	seen := map[*ssa.BasicBlock]bool{}
	stack := []*ssa.BasicBlock{b}
	for len(stack) > 0 {
		x := stack[len(stack)-1]
		stack = stack[:len(stack)-1]
		if seen[x] {
			continue
		}
		seen[x] = true
		for _, in := range x.Instrs {
			if mi, ok := in.(*ssa.MakeInterface); ok && c.isRespErr(mi.X.Type()) {
				return true
			}
			// … or reports "not valid" to its caller: a return whose boolean result is the constant false (or a non-nil
			// error constant) — a validation phase split off into a helper
			if ret, ok := in.(*ssa.Return); ok {
				for _, r := range ret.Results {
					if k, isC := r.(*ssa.Const); isC && k.Value != nil {
						if b, isB := r.Type().Underlying().(*types.Basic); isB && b.Kind() == types.Bool && k.Value.String() == "false" {
							return true
						}
					}
				}
			}
		}
		stack = append(stack, x.Succs...)
	}
	return false
}

func decodesBinary(fn *ssa.Function) bool {
	for _, in := range instrsOf(fn) {
		if call, ok := in.(*ssa.Call); ok {
			name := fullCalleeName(call)
			if strings.Contains(name, "encoding/binary") && (strings.Contains(name, ".Uint") || strings.Contains(name, ".Read")) {
				return true
			}
		}
	}
	return false
}
