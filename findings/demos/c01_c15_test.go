package redisemu

import (
	"strings"
	"testing"
	"time"
)

func TestDemoC01CrlfInjection(t *testing.T) {
	s := startDemo(t, "")
	defer s.stop()
	c := s.dial(t)
	c.send("A\r\n+INJECTED", "x")
	r1 := c.read(time.Second)
	if strings.ContainsAny(r1, "\r\n") {
		t.Errorf("error reply contains a raw line break: %q", r1)
	}
	// exactly one reply per command: the next command's reply must be PONG, not a left-over frame
	expect(t, "PING after the unknown command", c.do("PING"), "+PONG")
}

func TestDemoC15HelloVersion(t *testing.T) {
	s := startDemo(t, "")
	defer s.stop()
	c := s.dial(t)
	r := c.do("HELLO", "4")
	if !strings.HasPrefix(r, "-") {
		t.Errorf("HELLO 4: got %s, want an error (unsupported protocol version)", r)
	}
	c.do("SADD", "s", "a")
	expect(t, "SMEMBERS after the refused HELLO (still RESP2: an array)", c.do("SMEMBERS", "s"), `["a"]`)
}
