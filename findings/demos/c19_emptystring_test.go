package redisemu

import (
	"path/filepath"
	"testing"
)

// C19: an empty string value survives a restart as an empty string.
func TestDemoC19EmptyStringSurvivesRestart(t *testing.T) {
	base := filepath.Join(t.TempDir(), "data")
	s := startDemo(t, base)
	c := s.dial(t)
	c.do("SET", "e", "")
	c.do("SET", "x", "1")
	s.stop()
	s2 := startDemo(t, base)
	defer s2.stop()
	d := s2.dial(t)
	expect(t, "GET e after the restart", d.do("GET", "e"), "\"\"")
	expect(t, "STRLEN e", d.do("STRLEN", "e"), ":0")
	expect(t, "APPEND e a", d.do("APPEND", "e", "a"), ":1")
	expect(t, "GET x", d.do("GET", "x"), "\"1\"")
}
