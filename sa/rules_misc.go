package main

// Small sibling-agreement and ordering rules added after the third batch of seeded changes.

import (
	"fmt"
	"go/constant"
	"go/token"
	"go/types"
	"sort"
	"strings"

	"golang.org/x/tools/go/ssa"
)

// ---------------------------------------------------------------- R-float-text

const textFloatText = "R-float-text: every place that turns a float64 into reply text uses fixed notation (strconv.FormatFloat(x, 'f', …) or a %f verb), as all sibling sites do: %v/%g/%e and the 'g'/'e' formats switch to exponent notation below 1e-4 and from 1e21, which no Redis client parses as the number INCRBYFLOAT/HINCRBYFLOAT/ZSCORE returned"

func isFloatType(t types.Type) bool {
	b, ok := t.Underlying().(*types.Basic)
	return ok && (b.Kind() == types.Float64 || b.Kind() == types.Float32)
}

func ruleFloatText(c *Ctx) {
	c.S.Rule("R-float-text", textFloatText, 1)
	for _, fn := range c.SrcFuncs() {
		k := 0
		for _, in := range instrsOf(fn) {
			call, ok := in.(*ssa.Call)
			if !ok {
				continue
			}
			name := fullCalleeName(call)
			switch {
			case name == "strconv.FormatFloat" && len(call.Call.Args) >= 2:
				k++
				key := fmt.Sprintf("%s:float-to-text#%d", fnName(fn), k)
				if f, isC := constInt(call.Call.Args[1]); isC && (f == 'f' || f == 'F') {
					c.S.OK("R-float-text", key, c.Pos(call.Pos()), "fixed notation")
				} else {
					c.S.Bad("R-float-text", key, c.Pos(call.Pos()), fmt.Sprintf("%s formats a float with a format other than 'f': small and large values come out in exponent notation", fnName(fn)))
				}
			case name == "fmt.Sprintf" || name == "fmt.Sprint" || name == "fmt.Sprintln" || name == "fmt.Fprintf" || name == "fmt.Appendf":
				// the variadic arguments: stores of MakeInterface values into the varargs array
				var floats []int
				var va ssa.Value = call.Call.Args[len(call.Call.Args)-1]
				sl, ok := va.(*ssa.Slice)
				if !ok {
					continue
				}
				arr, ok := sl.X.(*ssa.Alloc)
				if !ok {
					continue
				}
				for _, r := range referrers(arr) {
					ia, ok := r.(*ssa.IndexAddr)
					if !ok {
						continue
					}
					idx, isC := constInt(ia.Index)
					if !isC {
						continue
					}
					for _, r2 := range referrers(ia) {
						if st, ok := r2.(*ssa.Store); ok {
							if mi, ok := st.Val.(*ssa.MakeInterface); ok && isFloatType(mi.X.Type()) {
								floats = append(floats, int(idx))
							}
						}
					}
				}
				if len(floats) == 0 {
					continue
				}
				sort.Ints(floats)
				verbs := []string(nil)
				if strings.HasSuffix(name, "f") {
					fi := 0
					if name == "fmt.Fprintf" || name == "fmt.Appendf" {
						fi = 1
					}
					if cst, ok := call.Call.Args[fi].(*ssa.Const); ok && cst.Value != nil && cst.Value.Kind() == constant.String {
						verbs = formatVerbs(constant.StringVal(cst.Value))
					}
				}
				for _, ai := range floats {
					k++
					key := fmt.Sprintf("%s:float-to-text#%d", fnName(fn), k)
					verb := "v"
					if verbs != nil && ai < len(verbs) {
						verb = verbs[ai]
					}
					if verb == "f" || verb == "F" {
						c.S.OK("R-float-text", key, c.Pos(call.Pos()), "fixed notation (%f)")
					} else {
						c.S.Bad("R-float-text", key, c.Pos(call.Pos()), fmt.Sprintf("%s formats a float with %%%s: values below 1e-4 or from 1e21 come out in exponent notation (1e-05), unlike every sibling site, which uses fixed notation", fnName(fn), verb))
					}
				}
			}
		}
	}
}

// formatVerbs: the verb letter of each argument-consuming directive of a format string, in order.
func formatVerbs(f string) []string {
	var out []string
	for i := 0; i < len(f); i++ {
		if f[i] != '%' {
			continue
		}
		i++
		for i < len(f) && strings.ContainsRune("+-# 0123456789.[]*", rune(f[i])) {
			if f[i] == '*' {
				out = append(out, "*")
			}
			i++
		}
		if i < len(f) && f[i] != '%' {
			out = append(out, string(f[i]))
		}
	}
	return out
}

// ---------------------------------------------------------------- A1-unlisted-global

const textUnlistedGlobal = "A1-unlisted-global: a package-level variable that is not in the guarded-by table and is written at run time by code that connection goroutines reach is accessed under one common lock class at every access (or only atomically): a lazily initialised package-level cache written by a command handler is a data race between two connections"

func ruleUnlistedGlobal(c *Ctx) {
	c.S.Rule("A1-unlisted-global", textUnlistedGlobal, 0)
	lm := c.M.Locks()
	rm := c.M.Req()
	gt := rm.gt
	// functions reachable from goroutine roots (connection handlers, workers): anything in Reach of a root
	conc := map[*ssa.Function]bool{}
	for _, r := range rm.roots {
		for f := range c.M.Reach(r) {
			conc[f] = true
		}
		conc[r] = true
	}
	type st struct {
		writes, n int
		held      lockSet
		atomic    bool
		writers   map[string]bool
		pos       string
	}
	by := map[*ssa.Global]*st{}
	for _, fn := range c.SrcFuncs() {
		if fn.Name() == "init" && fn.Parent() == nil {
			continue
		}
		if !conc[fn] {
			continue
		}
		for _, a := range c.Accesses(fn) {
			if a.Glob == nil || a.Field != nil {
				continue
			}
			if _, listed := gt.byGlob[a.Glob]; listed {
				continue
			}
			if isMutexType(deref(a.Glob.Type())) {
				continue
			}
			s := by[a.Glob]
			if s == nil {
				s = &st{held: ^lockSet(0), atomic: true, writers: map[string]bool{}}
				by[a.Glob] = s
			}
			s.n++
			if !a.Atomic {
				s.atomic = false
			}
			s.held &= lm.LocallyHeld(a.In)
			if a.Write {
				s.writes++
				s.writers[fnName(fn)] = true
				if s.pos == "" {
					s.pos = c.Pos(c.InstrPos(a.In))
				}
			}
		}
	}
	var gs []*ssa.Global
	for g, s := range by {
		if s.writes > 0 {
			gs = append(gs, g)
		}
	}
	sort.Slice(gs, func(i, j int) bool { return gs[i].Name() < gs[j].Name() })
	n := 0
	for _, g := range gs {
		s := by[g]
		if why, ok := globalAllow[g.Name()]; ok && why != "" {
			continue
		}
		n++
		key := "global " + g.Name()
		var ws []string
		for w := range s.writers {
			ws = append(ws, w)
		}
		sort.Strings(ws)
		switch {
		case s.atomic:
			c.S.OK("A1-unlisted-global", key, s.pos, "only accessed through sync/atomic")
		case s.held != 0:
			c.S.OK("A1-unlisted-global", key, s.pos, "every access holds "+lm.setString(s.held))
		default:
			c.S.Bad("A1-unlisted-global", key, s.pos, fmt.Sprintf("package-level %s is written at run time by %s, which connection goroutines reach, and its accesses have no lock class in common: two connections race on it", g.Name(), strings.Join(ws, ", ")))
		}
	}
	if n == 0 {
		c.S.Trivial("A1-unlisted-global", "none", "-", "every package-level variable written at run time by connection code is in the guarded-by table")
	}
}

// ---------------------------------------------------------------- R-C12-write-deadline

const textWriteDeadline = "R-C12-write-deadline: a deadline for writing the reply, if one is set at all, is computed after the command has run (the call that sets it is dominated by the dispatch call in the reply goroutine): a deadline taken before a blocking command starts has expired when the command ends after its timeout, and the reply is lost"

func ruleC12WriteDeadline(c *Ctx) {
	c.S.Rule("R-C12-write-deadline", textWriteDeadline, 0)
	a := c.cxn()
	if len(a.errs) > 0 || a.writeFn == nil {
		c.S.Undecided("R-C12-write-deadline", "anchors", "-", strings.Join(a.errs, "; "))
		return
	}
	// the dispatch call: the call in the writer (or the function that contains the writer) whose result is serialised
	n := 0
	for _, fn := range c.SrcFuncs() {
		for _, in := range instrsOf(fn) {
			call, ok := in.(ssa.CallInstruction)
			if !ok || !(isConnMethod(call, "SetWriteDeadline") || isConnMethod(call, "SetDeadline")) {
				continue
			}
			if !enclosingRecv(c, fn) {
				continue
			}
			n++
			key := fmt.Sprintf("%s:deadline#%d", fnName(fn), n)
			// a dispatch call (reaches the command dispatcher) in the same function that dominates this call
			okAfter := false
			for _, in2 := range instrsOf(fn) {
				c2, ok := in2.(*ssa.Call)
				if !ok || c2 == in {
					continue
				}
				g := c2.Call.StaticCallee()
				if g == nil || !c.InPkg(g) {
					continue
				}
				if hs := c.M.Locks().handlerDynSites; len(hs) > 0 {
					reaches := false
					for site := range hs {
						if site.Parent() == g || c.M.Reach(g)[site.Parent()] {
							reaches = true
						}
					}
					if reaches && instrDominates(in2, in) {
						okAfter = true
					}
				}
			}
			encloses := false
			for f := a.writeFn; f != nil; f = f.Parent() {
				if f == fn {
					encloses = true // the function that starts the reply goroutine
				}
			}
			if !encloses && !c.M.Reach(fn)[a.writeFn] && !c.M.Reach(a.writeFn)[fn] {
				c.S.Trivial("R-C12-write-deadline", key, c.Pos(in.Pos()), "not on the reply path")
				continue
			}
			if okAfter {
				c.S.OK("R-C12-write-deadline", key, c.Pos(in.Pos()), "set after the command has run")
			} else {
				c.S.Bad("R-C12-write-deadline", key, c.Pos(in.Pos()), fmt.Sprintf("%s sets the connection's write deadline before the command is dispatched: a blocking command that ends after its timeout finds the deadline expired and its reply is never written", fnName(fn)))
			}
		}
	}
	if n == 0 {
		c.S.Trivial("R-C12-write-deadline", "none", "-", "no write deadline is set on connections")
	}
}

// ---------------------------------------------------------------- R-C12-state-cas

const textStateCAS = "R-C12-state-cas: the capture state of a connection (clientState.blocked) is a state machine shared by the blocked command and by every goroutine that inspects or unblocks it; each write to it is a CompareAndSwap from one named state to another, or a Store of a named state by the goroutine that owns the transient state (dominated by its own successful CompareAndSwap). An unconditional Swap, or writing back a value read earlier, loses the update of a concurrent checker: two overlapping checks leave the state at CHECKING for ever and the blocked command can never end"

func ruleC12StateCAS(c *Ctx) {
	c.S.Rule("R-C12-state-cas", textStateCAS, 2)
	fBlocked := c.Field("clientState", "blocked")
	if fBlocked == nil {
		c.S.Undecided("R-C12-state-cas", "anchor", "-", "clientState.blocked not found")
		return
	}
	onField := func(call *ssa.Call) bool {
		if len(call.Call.Args) == 0 {
			return false
		}
		fa, ok := call.Call.Args[0].(*ssa.FieldAddr)
		return ok && fieldOf(fa) == fBlocked
	}
	var isConstArg func(v ssa.Value) bool
	isConstArg = func(v ssa.Value) bool {
		v = stripValue(v)
		if _, ok := constInt(v); ok {
			return true
		}
		// a parameter of a transition helper (setLock(from, to)): a named state at every call site
		p, ok := v.(*ssa.Parameter)
		if !ok {
			return false
		}
		fn := p.Parent()
		idx := -1
		for i, q := range fn.Params {
			if q == p {
				idx = i
			}
		}
		node := c.CG.Nodes[fn]
		if node == nil || idx < 0 || len(node.In) == 0 {
			return false
		}
		for _, e := range node.In {
			args := e.Site.Common().Args
			if e.Site.Common().IsInvoke() || idx >= len(args) {
				return false
			}
			if _, ok := constInt(stripValue(args[idx])); !ok {
				return false
			}
		}
		return true
	}
	for _, fn := range c.SrcFuncs() {
		k := 0
		// successful-CAS edges of this function on the field
		type edge struct{ from, to *ssa.BasicBlock }
		var owned []edge
		for _, b := range fn.Blocks {
			ifi, ok := b.Instrs[len(b.Instrs)-1].(*ssa.If)
			if !ok {
				continue
			}
			cond, neg := ifi.Cond, false
			for {
				u, isU := cond.(*ssa.UnOp)
				if !isU || u.Op != token.NOT {
					break
				}
				cond, neg = u.X, !neg
			}
			if call, ok := cond.(*ssa.Call); ok && strings.HasPrefix(fullCalleeName(call), "sync/atomic.CompareAndSwap") && onField(call) {
				idx := 0
				if neg {
					idx = 1
				}
				owned = append(owned, edge{b, b.Succs[idx]})
			}
		}
		for _, in := range instrsOf(fn) {
			call, ok := in.(*ssa.Call)
			if !ok || !onField(call) {
				continue
			}
			name := fullCalleeName(call)
			if !strings.HasPrefix(name, "sync/atomic.") {
				continue
			}
			op := strings.TrimPrefix(name, "sync/atomic.")
			if strings.HasPrefix(op, "Load") {
				continue
			}
			k++
			key := fmt.Sprintf("%s:state-write#%d", fnName(fn), k)
			switch {
			case strings.HasPrefix(op, "CompareAndSwap"):
				if len(call.Call.Args) == 3 && isConstArg(call.Call.Args[2]) {
					c.S.OK("R-C12-state-cas", key, c.Pos(call.Pos()), "CompareAndSwap to a named state")
				} else {
					c.S.Bad("R-C12-state-cas", key, c.Pos(call.Pos()), fmt.Sprintf("%s moves the capture state to a value that is not a named state", fnName(fn)))
				}
			case strings.HasPrefix(op, "Store"):
				ownedHere := false
				for _, e := range owned {
					if len(e.to.Preds) == 1 && (e.to == call.Block() || e.to.Dominates(call.Block())) {
						ownedHere = true
					}
				}
				if ownedHere && len(call.Call.Args) == 2 && isConstArg(call.Call.Args[1]) {
					c.S.OK("R-C12-state-cas", key, c.Pos(call.Pos()), "Store of a named state by the owner of the transient state")
				} else {
					c.S.Bad("R-C12-state-cas", key, c.Pos(call.Pos()), fmt.Sprintf("%s stores into the capture state without owning it (no successful CompareAndSwap of its own dominates the store) or stores a value that is not a named state", fnName(fn)))
				}
			default:
				what := "overwrites the capture state unconditionally (" + op + ")"
				if len(call.Call.Args) == 2 && !isConstArg(call.Call.Args[1]) {
					what = "writes back a state value it read earlier (" + op + ")"
				}
				c.S.Bad("R-C12-state-cas", key, c.Pos(call.Pos()), fmt.Sprintf("%s %s: when two goroutines check at the same time, one of them restores CHECKING over the other's restored state, and the state machine is stuck — the blocked command can never end and every later check spins", fnName(fn), what))
			}
		}
	}
}
