package main

// Rules written after the fifth batch of seeded changes: small who-may / how-must rules, each stated as a clause of a
// property and each with the instances of today's tree as obligations.

import (
	"fmt"
	"go/ast"
	"go/token"
	"go/types"
	"sort"
	"strings"

	"golang.org/x/tools/go/ssa"
)

// ---------------------------------------------------------------- R-format-const

const textFormatConst = "R-format-const: the format of every fmt.Sprintf / Fprintf / Errorf / Sscanf is a constant: text that comes from a client (a payload, a key) is only ever an operand of a verb, never part of the format. A payload spliced into the format (`\"$%d\\r\\n\"+string(data)+\"\\r\\n\"`) turns every `%` in a value into a verb: the reply carries `%!d(MISSING)`, its length prefix is wrong and the stream behind it is mis-framed"

func ruleFormatConst(c *Ctx) {
	c.S.Rule("R-format-const", textFormatConst, 1)
	fmtIdx := map[string]int{"fmt.Sprintf": 0, "fmt.Errorf": 0, "fmt.Printf": 0, "fmt.Fprintf": 1, "fmt.Sscanf": 1, "fmt.Fscanf": 1, "fmt.Appendf": 1}
	n, bad := 0, 0
	for _, fn := range c.SrcFuncs() {
		k := 0
		for _, in := range instrsOf(fn) {
			call, ok := in.(ssa.CallInstruction)
			if !ok {
				continue
			}
			g := call.Common().StaticCallee()
			if g == nil {
				continue
			}
			idx, isFmt := fmtIdx[g.String()]
			if !isFmt || idx >= len(call.Common().Args) {
				continue
			}
			n++
			if _, isConst := call.Common().Args[idx].(*ssa.Const); isConst {
				continue
			}
			k++
			bad++
			c.S.Bad("R-format-const", fmt.Sprintf("%s:format#%d", fnName(fn), k), c.Pos(call.Pos()), fmt.Sprintf("%s calls %s with a format that is computed at run time: a %% in the data becomes a verb", fnName(fn), g.String()))
		}
	}
	if bad == 0 {
		c.S.OK("R-format-const", "all-formats", "-", fmt.Sprintf("all %d formats are constants", n))
	}
}

// ---------------------------------------------------------------- R-parse-base10

const textParseBase = "R-parse-base10: numbers in client or stored text are decimal: every strconv.ParseInt / ParseUint is called with the constant base 10 (base 0 would accept 0x10, 0b101, 0o17, 1_000 and read 010 as 8 — INCR on the value \"0x10\" must be refused, not answered 17)"

func ruleParseBase10(c *Ctx) {
	c.S.Rule("R-parse-base10", textParseBase, 1)
	n := 0
	for _, fn := range c.SrcFuncs() {
		k := 0
		for _, in := range instrsOf(fn) {
			call, ok := in.(ssa.CallInstruction)
			if !ok {
				continue
			}
			g := call.Common().StaticCallee()
			if g == nil || (g.String() != "strconv.ParseInt" && g.String() != "strconv.ParseUint") || len(call.Common().Args) != 3 {
				continue
			}
			k++
			n++
			key := fmt.Sprintf("%s:parse#%d", fnName(fn), k)
			if b, isC := constInt(call.Common().Args[1]); isC && b == 10 {
				c.S.OK("R-parse-base10", key, c.Pos(call.Pos()), "base 10")
			} else {
				c.S.Bad("R-parse-base10", key, c.Pos(call.Pos()), fmt.Sprintf("%s parses an integer with a base other than the constant 10: prefixed, underscored and octal-looking text is accepted as a number", fnName(fn)))
			}
		}
	}
	if n == 0 {
		c.S.Trivial("R-parse-base10", "none", "-", "no integer is parsed with strconv")
	}
}

// ---------------------------------------------------------------- R-C01-payload-untouched

const textPayloadUntouched = "R-C01-payload-untouched: between the socket and the handler a request's bytes are cut out by position and length only: no function reachable from the connection's command parser (its methods, and the connection function that creates it over the read buffer) applies a trimming, replacing or case-changing function of package bytes or strings to the request buffer (a bulk is `content[pos:pos+n]`; `bytes.TrimRight(payload, \"\\r\\n\")` takes a cutset and strips every trailing CR or LF of the value itself)"

func ruleC01PayloadUntouched(c *Ctx) {
	c.S.Rule("R-C01-payload-untouched", textPayloadUntouched, 1)
	// the parser entry: the method of the wire parser that the connection calls (yields a value, a length and a validity)
	var roots []*ssa.Function
	for _, fn := range c.SrcFuncs() {
		if fn.Signature.Recv() != nil && c.isPkgType(fn.Signature.Recv().Type(), "respDeserializer") {
			roots = append(roots, fn)
		}
	}
	if len(roots) == 0 {
		c.S.Undecided("R-C01-payload-untouched", "anchors", "-", "no method of the wire parser found")
		return
	}
	// and the connection's function that hands the read buffer to the parser: the constructor it picks is part of the way
	// of the bytes (one constructor normalises line ends for text resources)
	isParserMethod := map[*ssa.Function]bool{}
	for _, r := range roots {
		isParserMethod[r] = true
	}
	for _, fn := range c.SrcFuncs() {
		if fn.Signature.Recv() == nil || !c.isPkgType(fn.Signature.Recv().Type(), "clientCxn") {
			continue
		}
		for _, in := range instrsOf(fn) {
			if call, ok := in.(ssa.CallInstruction); ok && isParserMethod[call.Common().StaticCallee()] {
				roots = append(roots, fn)
				break
			}
		}
	}
	banned := map[string]bool{}
	for _, p := range []string{"bytes", "strings"} {
		for _, f := range []string{"Trim", "TrimLeft", "TrimRight", "TrimSpace", "TrimPrefix", "TrimSuffix", "TrimFunc", "TrimLeftFunc", "TrimRightFunc", "Replace", "ReplaceAll", "ToLower", "ToUpper", "ToTitle", "Title", "Map", "Fields", "ToValidUTF8"} {
			banned[p+"."+f] = true
		}
	}
	seen := map[*ssa.Function]bool{}
	n, bad := 0, 0
	for _, r := range roots {
		for f := range c.M.Reach(r) {
			if seen[f] {
				continue
			}
			seen[f] = true
			for _, in := range instrsOf(f) {
				call, ok := in.(ssa.CallInstruction)
				if !ok {
					continue
				}
				g := call.Common().StaticCallee()
				if g == nil || !banned[g.String()] {
					continue
				}
				n++
				// applied to a constant / to text the function built itself is not the request
				if len(call.Common().Args) > 0 {
					if _, isC := call.Common().Args[0].(*ssa.Const); isC {
						continue
					}
				}
				bad++
				c.S.Bad("R-C01-payload-untouched", fmt.Sprintf("%s:%s@%s", fnName(f), g.Name(), c.Pos(call.Pos())), c.Pos(call.Pos()), fmt.Sprintf("%s (part of the wire parser) passes request bytes through %s: bytes of a value can be removed or changed before the handler sees them", fnName(f), g.String()))
			}
		}
	}
	if bad == 0 {
		c.S.OK("R-C01-payload-untouched", "parser", c.Pos(roots[0].Pos()), fmt.Sprintf("%d functions of the wire parser examined, none transforms the buffer", len(seen)))
	}
}

// ---------------------------------------------------------------- R-dict-key-compare

const textDictKeyCompare = "R-dict-key-compare: the dictionary finds a bucket by hash; whether the entry in it is the entry asked for is decided by comparing the keys. Every method of the dictionary that takes a key and uses the bucket finder compares the found entry's key with it (get, store and remove alike — remove without the comparison deletes an unrelated field whose hash lands in the same bucket: HDEL of an absent field answers 1)"

func ruleDictKeyCompare(c *Ctx) {
	c.S.Rule("R-dict-key-compare", textDictKeyCompare, 1)
	fKey := c.Field("redisDictItem", "key")
	if fKey == nil {
		c.S.Undecided("R-dict-key-compare", "anchors", "-", "redisDictItem.key not found")
		return
	}
	n := 0
	for _, fn := range c.SrcFuncs() {
		if fn.Signature.Recv() == nil || !c.isPkgType(fn.Signature.Recv().Type(), "redisDict") || fn.Parent() != nil {
			continue
		}
		// takes a key (string parameter) and obtains an item from a finder (a sibling method yielding *redisDictItem)
		var keyParam *ssa.Parameter
		for _, p := range fn.Params[1:] {
			if b, ok := p.Type().Underlying().(*types.Basic); ok && b.Kind() == types.String {
				keyParam = p
				break
			}
		}
		if keyParam == nil {
			continue
		}
		finds := false
		for _, in := range instrsOf(fn) {
			if call, ok := in.(*ssa.Call); ok {
				if g := call.Call.StaticCallee(); g != nil && g != fn && g.Signature.Recv() != nil && c.isPkgType(g.Signature.Recv().Type(), "redisDict") {
					res := g.Signature.Results()
					for i := 0; i < res.Len(); i++ {
						if c.isPkgType(res.At(i).Type(), "redisDictItem") {
							finds = true
						}
					}
				}
			}
		}
		if !finds {
			continue
		}
		// is the result item-typed itself (a finder)? then it is judged in its users
		isFinder := false
		res := fn.Signature.Results()
		for i := 0; i < res.Len(); i++ {
			if c.isPkgType(res.At(i).Type(), "redisDictItem") {
				isFinder = true
			}
		}
		if isFinder {
			continue
		}
		n++
		key := fnName(fn) + ":compares-key"
		compares := false
		for _, in := range instrsOf(fn) {
			bo, ok := in.(*ssa.BinOp)
			if !ok || (bo.Op != token.EQL && bo.Op != token.NEQ) {
				continue
			}
			for _, pair := range [][2]ssa.Value{{bo.X, bo.Y}, {bo.Y, bo.X}} {
				if _, f := loadedField(pair[0]); f == fKey && pair[1] == ssa.Value(keyParam) {
					compares = true
				}
			}
		}
		if compares {
			c.S.OK("R-dict-key-compare", key, c.Pos(fn.Pos()), "the found entry's key is compared with the key asked for")
		} else {
			c.S.Bad("R-dict-key-compare", key, c.Pos(fn.Pos()), fmt.Sprintf("%s takes the entry of the key's bucket for the entry of the key: it never compares the entry's key — another key with a colliding hash is read, overwritten or removed in its place", fnName(fn)))
		}
	}
	if n == 0 {
		c.S.Undecided("R-dict-key-compare", "methods", "-", "no dictionary method uses a bucket finder")
	}
}

// ---------------------------------------------------------------- R-clone-fields

const textCloneFields = "R-clone-carries: the copy of a key object (COPY) carries the type flag and the deadline of the object it was made from: in the function that clones a key object the new object's flags and expiresAt are the source's — a copy that is made persistent, or typed by anything else, is not the value COPY promises"

func ruleCloneCarries(c *Ctx) {
	c.S.Rule("R-clone-carries", textCloneFields, 1)
	n := 0
	for _, fn := range c.SrcFuncs() {
		if fn.Signature.Recv() == nil || !c.isPkgType(fn.Signature.Recv().Type(), "storeKey") || fn.Signature.Results().Len() != 1 || !c.isPkgType(fn.Signature.Results().At(0).Type(), "storeKey") {
			continue
		}
		// builds a new key object
		var alloc *ssa.Alloc
		for _, in := range instrsOf(fn) {
			if al, ok := in.(*ssa.Alloc); ok && c.isPkgType(deref(al.Type()), "storeKey") {
				alloc = al
			}
		}
		if alloc == nil {
			continue
		}
		recv := fn.Params[0]
		for _, fname := range []string{"flags", "expiresAt"} {
			f := c.Field("storeKey", fname)
			if f == nil {
				continue
			}
			n++
			key := fmt.Sprintf("%s:carries-%s", fnName(fn), fname)
			okAll, found := true, false
			for _, in := range instrsOf(fn) {
				st, ok := isStoreTo(in, f)
				if !ok || outerBase(st.Addr.(*ssa.FieldAddr).X) != ssa.Value(alloc) {
					continue
				}
				found = true
				b, lf := loadedField(stripValue(st.Val))
				if lf != f || b != ssa.Value(recv) {
					okAll = false
				}
			}
			// the field lives in an embedded helper struct that is copied as a whole (`keyClock: sk.keyClock`)
			if !found {
				for _, in := range instrsOf(fn) {
					st, ok := in.(*ssa.Store)
					if !ok {
						continue
					}
					fa, ok := st.Addr.(*ssa.FieldAddr)
					if !ok || fa.X != ssa.Value(alloc) || !fieldOf(fa).Embedded() {
						continue
					}
					est, ok := deref(fieldOf(fa).Type()).Underlying().(*types.Struct)
					if !ok {
						continue
					}
					has := false
					for j := 0; j < est.NumFields(); j++ {
						if est.Field(j) == f {
							has = true
						}
					}
					if !has {
						continue
					}
					found = true
					b, lf := loadedField(st.Val)
					if lf != fieldOf(fa) || b != ssa.Value(recv) {
						okAll = false
					}
				}
			}
			if found && okAll {
				c.S.OK("R-clone-carries", key, c.Pos(fn.Pos()), "taken from the source object")
			} else {
				c.S.Bad("R-clone-carries", key, c.Pos(fn.Pos()), fmt.Sprintf("%s builds the copy with a %s that is not the source's: COPY does not carry the %s", fnName(fn), fname, map[string]string{"flags": "type", "expiresAt": "expiry"}[fname]))
			}
		}
	}
	if n == 0 {
		c.S.Trivial("R-clone-carries", "none", "-", "no method of the key object builds a copy")
	}
}

// ---------------------------------------------------------------- R-defer-stale-arg

const textDeferStale = "R-defer-current-value: a deferred call that must act on the *current* value of a local variable reads it when it runs: `defer f(v)` evaluates v at the defer statement, so if v is assigned again afterwards (the wake signal a blocking command re-registers with) the deferred call still gets the first value — the later registration is never left and a stale waiter swallows the next wake-up. Where a variable is assigned after a defer that names it, the defer is a closure"

func ruleDeferCurrentValue(c *Ctx) {
	c.S.Rule("R-defer-current-value", textDeferStale, 1)
	info := c.Pkg.TypesInfo
	n := 0
	for _, file := range c.Pkg.Syntax {
		if strings.HasSuffix(c.Fset.Position(file.Pos()).Filename, "_test.go") {
			continue
		}
		for _, decl := range file.Decls {
			fd, ok := decl.(*ast.FuncDecl)
			if !ok || fd.Body == nil {
				continue
			}
			var walkFn func(body *ast.BlockStmt, name string)
			walkFn = func(body *ast.BlockStmt, name string) {
				// defers of this function body (not of nested function literals) with plain identifier arguments
				type dsite struct {
					d    *ast.DeferStmt
					objs []types.Object
				}
				var defers []dsite
				var assigns []struct {
					obj types.Object
					pos token.Pos
				}
				var visit func(n ast.Node) bool
				visit = func(nd ast.Node) bool {
					switch x := nd.(type) {
					case *ast.FuncLit:
						// assignments inside closures made after the defer also change the variable
						ast.Inspect(x.Body, func(m ast.Node) bool {
							if as, ok := m.(*ast.AssignStmt); ok && as.Tok == token.ASSIGN {
								for _, l := range as.Lhs {
									if id, ok := l.(*ast.Ident); ok {
										if o := info.Uses[id]; o != nil {
											assigns = append(assigns, struct {
												obj types.Object
												pos token.Pos
											}{o, as.Pos()})
										}
									}
								}
							}
							return true
						})
						walkFn(x.Body, name+"$lit")
						return false
					case *ast.DeferStmt:
						if _, isLit := x.Call.Fun.(*ast.FuncLit); isLit {
							return true
						}
						var objs []types.Object
						for _, a := range x.Call.Args {
							if id, ok := a.(*ast.Ident); ok {
								if o, ok := info.Uses[id].(*types.Var); ok && !o.IsField() && o.Parent() != c.Pkg.Types.Scope() {
									objs = append(objs, o)
								}
							}
						}
						if len(objs) > 0 {
							defers = append(defers, dsite{x, objs})
						}
					case *ast.AssignStmt:
						if x.Tok == token.ASSIGN {
							for _, l := range x.Lhs {
								if id, ok := l.(*ast.Ident); ok {
									if o := info.Uses[id]; o != nil {
										assigns = append(assigns, struct {
											obj types.Object
											pos token.Pos
										}{o, x.Pos()})
									}
								}
							}
						}
					case *ast.IncDecStmt:
						if id, ok := x.X.(*ast.Ident); ok {
							if o := info.Uses[id]; o != nil {
								assigns = append(assigns, struct {
									obj types.Object
									pos token.Pos
								}{o, x.Pos()})
							}
						}
					}
					return true
				}
				ast.Inspect(body, visit)
				for i, d := range defers {
					n++
					key := fmt.Sprintf("%s:defer#%d", name, i+1)
					stale := ""
					for _, o := range d.objs {
						for _, a := range assigns {
							if a.obj == o && a.pos > d.d.End() {
								stale = o.Name()
							}
						}
					}
					if stale != "" {
						c.S.Bad("R-defer-current-value", key, c.Pos(d.d.Pos()), fmt.Sprintf("%s defers a call with the argument %s evaluated now, and assigns %s again later: the deferred call acts on the first value only", name, stale, stale))
					} else {
						c.S.OK("R-defer-current-value", key, c.Pos(d.d.Pos()), "the variables named in the deferred call are not assigned again")
					}
				}
			}
			name := fd.Name.Name
			if fd.Recv != nil && len(fd.Recv.List) > 0 {
				name = types.ExprString(fd.Recv.List[0].Type) + "." + name
			}
			walkFn(fd.Body, name)
		}
	}
	if n == 0 {
		c.S.Trivial("R-defer-current-value", "none", "-", "no deferred call names a local variable")
	}
	_ = sort.Strings
}

// ---------------------------------------------------------------- R-C14-index-unnarrowed

const textIndexUnnarrowed = "R-C14-index-unnarrowed: the database index SELECT validates is the number the client sent: on the way from the argument to the range test it is not converted to a narrower integer type (int32(index), or int(index) where int has 32 bits) unless a comparison has bounded it first — otherwise the test sees the number modulo 2^32 and SELECT 4294967296 selects database 0"

func ruleC14IndexUnnarrowed(c *Ctx) {
	c.S.Rule("R-C14-index-unnarrowed", textIndexUnnarrowed, 1)
	hs, err := c.M.Handlers()
	if err != nil || hs["select"] == nil {
		c.S.Undecided("R-C14-index-unnarrowed", "handler", "-", "SELECT handler not found")
		return
	}
	h := hs["select"]
	sizes := c.Pkg.TypesSizes
	m := c.a8()
	n := 0
	for _, in := range instrsOf(h) {
		cv, ok := in.(*ssa.Convert)
		if !ok {
			continue
		}
		sb, ok1 := cv.X.Type().Underlying().(*types.Basic)
		db, ok2 := cv.Type().Underlying().(*types.Basic)
		if !ok1 || !ok2 || sb.Info()&types.IsInteger == 0 || db.Info()&types.IsInteger == 0 {
			continue
		}
		n++
		key := fmt.Sprintf("%s:conversion#%d", fnName(h), n)
		if sizes.Sizeof(db) >= sizes.Sizeof(sb) {
			c.S.OK("R-C14-index-unnarrowed", key, c.Pos(cv.Pos()), "the conversion keeps every bit")
			continue
		}
		if m.bounded(cv.X, cv.Block(), sideUpper) && m.bounded(cv.X, cv.Block(), sideLower) {
			c.S.OK("R-C14-index-unnarrowed", key, c.Pos(cv.Pos()), "bounded before it is narrowed")
			continue
		}
		c.S.Bad("R-C14-index-unnarrowed", key, c.Pos(cv.Pos()), fmt.Sprintf("%s converts the index from %s to %s (%d to %d bytes) before its range was tested: an index that differs from a valid one by a multiple of 2^%d is accepted and selects that database", fnName(h), sb.Name(), db.Name(), sizes.Sizeof(sb), sizes.Sizeof(db), 8*sizes.Sizeof(db)))
	}
	if n == 0 {
		c.S.Trivial("R-C14-index-unnarrowed", "none", "-", "the handler converts no integer")
	}
}

// ---------------------------------------------------------------- R-C19-error-used

const textErrUsed = "R-C19-error-used: in the code that writes and replaces a snapshot file every error a step returns is looked at before the next step decides anything: no error result is dropped or overwritten unread. `err = writeSnapshot(f)` followed by `if err = f.Close(); …` forgets a failed write — the truncated temporary file is renamed over the last good snapshot and the database is marked clean"

func ruleC19ErrorUsed(c *Ctx) {
	c.S.Rule("R-C19-error-used", textErrUsed, 1)
	errType := types.Universe.Lookup("error").Type()
	n := 0
	for _, fn := range c.SrcFuncs() {
		if fn.Parent() != nil {
			continue
		}
		// the function that replaces the snapshot: it calls os.Rename itself and reaches the encoder
		direct, hasEnc := false, false
		for _, in := range instrsOf(fn) {
			if call, ok := in.(ssa.CallInstruction); ok {
				if g := call.Common().StaticCallee(); g != nil && g.String() == "os.Rename" {
					direct = true
				}
			}
		}
		if !direct {
			continue
		}
		for f := range c.M.Reach(fn) {
			for _, in := range instrsOf(f) {
				if call, ok := in.(ssa.CallInstruction); ok {
					if g := call.Common().StaticCallee(); g != nil && g.String() == "encoding/gob.NewEncoder" {
						hasEnc = true
					}
				}
			}
		}
		if !hasEnc {
			continue
		}
		k := 0
		for _, in := range instrsOf(fn) {
			call, ok := in.(*ssa.Call)
			if !ok {
				continue
			}
			res := call.Call.Signature().Results()
			idx := -1
			for i := 0; i < res.Len(); i++ {
				if types.Identical(res.At(i).Type(), errType) {
					idx = i
				}
			}
			if idx < 0 {
				continue
			}
			// clean-up calls whose failure changes nothing (removing the temporary file after another error)
			if g := call.Call.StaticCallee(); g != nil && g.String() == "os.Remove" {
				continue
			}
			// clean-up on a path that already carries an error (`if err != nil { f.Close(); … return }`)
			if inErrorBranch(call.Block(), errType) {
				continue
			}
			k++
			n++
			name := "a dynamic call"
			if g := call.Call.StaticCallee(); g != nil {
				name = g.String()
			} else if call.Call.IsInvoke() {
				name = call.Call.Method.Name()
			}
			key := fmt.Sprintf("%s:error-of-call#%d", fnName(fn), k)
			var ev ssa.Value = call
			if res.Len() > 1 {
				ev = nil
				for _, r := range referrers(call) {
					if ex, ok := r.(*ssa.Extract); ok && ex.Index == idx {
						ev = ex
					}
				}
			}
			used := false
			if ev != nil {
				for _, r := range referrers(ev) {
					switch u := r.(type) {
					case *ssa.Store:
						// stored into the named result / a local: is that cell read before it is written again?
						if al, ok := u.Addr.(*ssa.Alloc); ok {
							used = used || cellReadBeforeOverwrite(al, u)
						} else {
							used = true
						}
					case *ssa.DebugRef:
					default:
						used = true
					}
				}
			}
			if used {
				c.S.OK("R-C19-error-used", key, c.Pos(call.Pos()), "the error of "+name+" is examined")
			} else {
				c.S.Bad("R-C19-error-used", key, c.Pos(call.Pos()), fmt.Sprintf("%s drops the error of %s (it is overwritten or never read): a failed step does not stop the replacement of the last good snapshot", fnName(fn), name))
			}
		}
	}
	if n == 0 {
		c.S.Undecided("R-C19-error-used", "scope", "-", "no function both reaches the encoder and renames the snapshot")
	}
}

// inErrorBranch: the block is only entered through the non-nil side of a test of an error value.
func inErrorBranch(b *ssa.BasicBlock, errType types.Type) bool {
	for x := b; x != nil && x.Idom() != nil; x = x.Idom() {
		d := x.Idom()
		ifi, ok := d.Instrs[len(d.Instrs)-1].(*ssa.If)
		if !ok {
			continue
		}
		bo, ok := ifi.Cond.(*ssa.BinOp)
		if !ok || !(isNilConst(bo.X) || isNilConst(bo.Y)) {
			continue
		}
		other := bo.X
		if isNilConst(other) {
			other = bo.Y
		}
		if !types.Identical(other.Type(), errType) {
			continue
		}
		for i, s := range d.Succs {
			if (s == x || s.Dominates(x)) && len(s.Preds) == 1 {
				if (bo.Op == token.NEQ && i == 0) || (bo.Op == token.EQL && i == 1) {
					return true
				}
			}
		}
	}
	return false
}

// cellReadBeforeOverwrite: after the store st into the local cell al, some path reads the cell before another store.
func cellReadBeforeOverwrite(al *ssa.Alloc, st *ssa.Store) bool {
	seen := map[*ssa.BasicBlock]bool{}
	var walk func(b *ssa.BasicBlock, from int) bool
	walk = func(b *ssa.BasicBlock, from int) bool {
		for _, in := range b.Instrs[from:] {
			switch x := in.(type) {
			case *ssa.UnOp:
				if x.Op == token.MUL && x.X == ssa.Value(al) {
					return true
				}
			case *ssa.Store:
				if x.Addr == ssa.Value(al) {
					return false
				}
			case *ssa.RunDefers:
				return true // a deferred closure may read it
			}
		}
		for _, s := range b.Succs {
			if !seen[s] {
				seen[s] = true
				if walk(s, 0) {
					return true
				}
			}
		}
		return false
	}
	return walk(st.Block(), instrIndex(st)+1)
}

// ---------------------------------------------------------------- R-C20-api-own-instance

const textAPIOwnInstance = "R-C20-api-own-instance: what an emulator's RequestTermination / Close / WaitForTermination does, it does to its own instance: no function they reach reads or writes a package-level registry that all emulators of the process share (closing every connection in the package-level client table disconnects the clients of the other emulators)"

func ruleC20APIOwnInstance(c *Ctx) {
	c.S.Rule("R-C20-api-own-instance", textAPIOwnInstance, 1)
	n := 0
	for _, name := range []string{"(*RedisEmu).RequestTermination", "(*RedisEmu).WaitForTermination", "(*RedisEmu).Close"} {
		fn := c.Fn(name)
		if fn == nil {
			continue
		}
		n++
		key := name + ":touches-no-shared-registry"
		bad := ""
		var pos token.Pos
		for f := range c.M.Reach(fn) {
			for _, in := range instrsOf(f) {
				var g *ssa.Global
				switch x := in.(type) {
				case *ssa.UnOp:
					g, _ = x.X.(*ssa.Global)
				case *ssa.Store:
					g, _ = x.Addr.(*ssa.Global)
				}
				if g == nil || g.Pkg != c.SPkg {
					continue
				}
				// a registry: a map or slice of per-connection / per-instance objects
				switch t := deref(g.Type()).Underlying().(type) {
				case *types.Map:
					if _, isPtr := t.Elem().Underlying().(*types.Pointer); isPtr {
						bad, pos = g.Name(), in.Pos()
					}
				case *types.Slice:
					if _, isPtr := t.Elem().Underlying().(*types.Pointer); isPtr {
						bad, pos = g.Name(), in.Pos()
					}
				}
			}
		}
		if bad != "" {
			c.S.Bad("R-C20-api-own-instance", key, c.Pos(pos), fmt.Sprintf("%s reaches the package-level registry %s, which every emulator of the process shares: terminating one emulator acts on the connections of the others", name, bad))
		} else {
			c.S.OK("R-C20-api-own-instance", key, c.Pos(fn.Pos()), "reaches no package-level registry of objects")
		}
	}
	if n == 0 {
		c.S.Undecided("R-C20-api-own-instance", "api", "-", "termination API not found")
	}
}

// ---------------------------------------------------------------- R-C14-flush-always

const textFlushAlways = "R-C14-flush-always: FLUSHALL and FLUSHDB empty every database they name, whatever its state: in every function they call that replaces a database's dictionary, the replacement is on every path — no early return on a flag (a database that has nothing unsaved is not an empty database)"

func ruleC14FlushAlways(c *Ctx) {
	c.S.Rule("R-C14-flush-always", textFlushAlways, 1)
	hs, err := c.M.Handlers()
	fData := c.Field("dataStore", "data")
	if err != nil || fData == nil {
		c.S.Undecided("R-C14-flush-always", "anchors", "-", "handler table / dataStore.data not found")
		return
	}
	n := 0
	seenFn := map[*ssa.Function]bool{}
	for _, tok := range []string{"flushall", "flushdb"} {
		h := hs[tok]
		if h == nil {
			continue
		}
		for f := range c.M.Reach(h) {
			if seenFn[f] || f.Parent() != nil {
				continue
			}
			var stores []ssa.Instruction
			for _, in := range instrsOf(f) {
				if _, ok := isStoreTo(in, fData); ok {
					stores = append(stores, in)
				}
			}
			if len(stores) == 0 {
				continue
			}
			seenFn[f] = true
			n++
			key := fnName(f) + ":replaces-on-every-path"
			isStore := func(in ssa.Instruction) bool {
				for _, s := range stores {
					if s == in {
						return true
					}
				}
				return false
			}
			cm := &CoverModel{m: c.M, mm: c.M.Muts(), isEvent: isStore, always: map[*ssa.Function]bool{}}
			if cm.exitReachableWithoutE(f, f.Blocks[0], 0) {
				c.S.Bad("R-C14-flush-always", key, c.Pos(f.Pos()), fmt.Sprintf("%s (reached from %s) can return without replacing the dictionary: a database in that state survives the flush", fnName(f), strings.ToUpper(tok)))
			} else {
				c.S.OK("R-C14-flush-always", key, c.Pos(f.Pos()), "the dictionary is replaced on every path")
			}
		}
	}
	if n == 0 {
		c.S.Undecided("R-C14-flush-always", "sites", "-", "no function reached from FLUSHALL/FLUSHDB replaces a dictionary")
	}
}

// ---------------------------------------------------------------- R-C09-one-reply-per-queued

const textOneReply = "R-C09-one-reply-per-queued: EXEC answers with one reply per queued command, in order: in the replay loop every path from the call that runs a queued command to the next iteration (or out of the loop) stores that command's reply into the result — also when the reply is an error. A `continue` on an error reply makes the array shorter and attributes every later reply to the wrong command"

func ruleC09OneReply(c *Ctx) {
	c.S.Rule("R-C09-one-reply-per-queued", textOneReply, 1)
	t := c.txn()
	if len(t.errs) > 0 || t.handlers["exec"] == nil || t.dispatchHandler == nil {
		c.S.Undecided("R-C09-one-reply-per-queued", "anchors", "-", strings.Join(append(t.errs, "EXEC handler / dispatch function"), "; "))
		return
	}
	n := 0
	for f := range c.M.Reach(t.handlers["exec"]) {
		k := 0
		for _, in := range instrsOf(f) {
			call, ok := in.(*ssa.Call)
			if !ok || call.Call.StaticCallee() != t.dispatchHandler || !blockInCycle(call.Block()) {
				continue
			}
			n++
			k++
			key := fmt.Sprintf("%s:replay#%d", fnName(f), k)
			// the loop: blocks on a cycle through the call's block
			from := reachableFrom(call.Block(), nil)
			inLoop := map[*ssa.BasicBlock]bool{}
			for b := range from {
				if reachableFrom(b, nil)[call.Block()] {
					inLoop[b] = true
				}
			}
			// the reply is kept: a store of (a conversion of) the call's result into an element of a slice or array
			keeps := func(in2 ssa.Instruction) bool {
				st, ok := in2.(*ssa.Store)
				if !ok {
					return false
				}
				if stripValue(st.Val) != ssa.Value(call) {
					return false
				}
				_, isElem := st.Addr.(*ssa.IndexAddr)
				return isElem
			}
			bad := false
			seen := map[*ssa.BasicBlock]bool{}
			var walk func(b *ssa.BasicBlock, start int)
			walk = func(b *ssa.BasicBlock, start int) {
				if bad {
					return
				}
				for _, in2 := range b.Instrs[start:] {
					if keeps(in2) {
						return
					}
				}
				for _, s := range b.Succs {
					if s == call.Block() || !inLoop[s] {
						bad = true // the next iteration, or the code behind the loop, without the reply kept
						return
					}
					if !seen[s] {
						seen[s] = true
						walk(s, 0)
					}
				}
			}
			walk(call.Block(), instrIndex(call)+1)
			if bad {
				c.S.Bad("R-C09-one-reply-per-queued", key, c.Pos(call.Pos()), fmt.Sprintf("in %s a path leads from the replay of a queued command to the next one (or out of the loop) without storing its reply: EXEC answers with fewer replies than commands", fnName(f)))
			} else {
				c.S.OK("R-C09-one-reply-per-queued", key, c.Pos(call.Pos()), "every path from the replay call stores the reply before the next iteration")
			}
		}
	}
	if n == 0 {
		c.S.Undecided("R-C09-one-reply-per-queued", "loop", "-", "no replay call inside a loop found under the EXEC handler")
	}
}

// ---------------------------------------------------------------- R-C09-own-command-object

const textOwnCmdObject = "R-C09-own-command-object: the re-entrant lock of a database lets a command through only when the command object carries the id EXEC stamped on it. A handler that makes a *new* command object for a database and locks through it must know that this database is not the one its own command object holds (a comparison of the two database pointers, on the unequal side): for the connection's own database the new object's lock() is a plain Lock on the mutex EXEC already holds — MULTI; FLUSHALL; EXEC never returns and every client of that database hangs"

func ruleC09OwnCommandObject(c *Ctx) {
	c.S.Rule("R-C09-own-command-object", textOwnCmdObject, 1)
	lm := c.M.Locks()
	hs, err := c.M.Handlers()
	fDs := c.Field("dataStoreCommand", "ds")
	if err != nil || lm.DB < 0 || fDs == nil {
		c.S.Undecided("R-C09-own-command-object", "model", "-", "handlers / lock class / dataStoreCommand.ds unavailable")
		return
	}
	live := map[*ssa.Function]bool{}
	for _, h := range hs {
		for f := range c.M.Reach(h) {
			live[f] = true
		}
	}
	// locks: the function can acquire the database class (directly, through the token-conditional wrapper, or a callee)
	locksMemo := map[*ssa.Function]int{}
	var locks func(g *ssa.Function, depth int) bool
	locks = func(g *ssa.Function, depth int) bool {
		if g == nil || depth > 4 || !c.InPkg(g) {
			return false
		}
		if v, ok := locksMemo[g]; ok {
			return v == 1
		}
		locksMemo[g] = 0
		for _, in := range instrsOf(g) {
			call, ok := in.(ssa.CallInstruction)
			if !ok {
				continue
			}
			if op, cls, _ := lm.lockOp(call); op > 0 && cls == lm.DB {
				locksMemo[g] = 1
				return true
			}
			if h := call.Common().StaticCallee(); h != nil && h != g && locks(h, depth+1) {
				locksMemo[g] = 1
				return true
			}
		}
		return false
	}
	n := 0
	var fns []*ssa.Function
	for f := range live {
		fns = append(fns, f)
	}
	sort.Slice(fns, func(i, j int) bool { return fnName(fns[i]) < fnName(fns[j]) })
	for _, f := range fns {
		k := 0
		for _, in := range instrsOf(f) {
			mk, ok := in.(*ssa.Call)
			if !ok {
				continue
			}
			g := mk.Call.StaticCallee()
			if g == nil || g.Signature.Recv() == nil || !c.isPkgType(g.Signature.Recv().Type(), "dataStore") || g.Signature.Results().Len() != 1 || !c.isPkgType(g.Signature.Results().At(0).Type(), "dataStoreCommand") || len(mk.Call.Args) == 0 {
				continue
			}
			// is the new object used to lock?
			usedToLock := false
			for _, r := range referrers(mk) {
				if call, ok := r.(ssa.CallInstruction); ok {
					if h := call.Common().StaticCallee(); h != nil && len(call.Common().Args) > 0 && call.Common().Args[0] == ssa.Value(mk) && locks(h, 0) {
						usedToLock = true
					}
				}
			}
			if !usedToLock {
				continue
			}
			k++
			n++
			key := fmt.Sprintf("%s:new-command-object#%d", fnName(f), k)
			ds := mk.Call.Args[0]
			guarded := false
			for b := mk.Block(); b != nil && b.Idom() != nil; b = b.Idom() {
				d := b.Idom()
				ifi, ok := d.Instrs[len(d.Instrs)-1].(*ssa.If)
				if !ok {
					continue
				}
				bo, ok := ifi.Cond.(*ssa.BinOp)
				if !ok || (bo.Op != token.EQL && bo.Op != token.NEQ) {
					continue
				}
				isOwn := func(v ssa.Value) bool { _, fld := loadedField(v); return fld == fDs }
				isDs := func(v ssa.Value) bool { return v == ds || sameValue(v, ds) } // the iterator's current element read twice
				if !((isDs(bo.X) && isOwn(bo.Y)) || (isDs(bo.Y) && isOwn(bo.X))) {
					continue
				}
				for i, s := range d.Succs {
					if (s == b || s.Dominates(b)) && len(s.Preds) == 1 {
						if (bo.Op == token.EQL && i == 1) || (bo.Op == token.NEQ && i == 0) {
							guarded = true
						}
					}
				}
			}
			if guarded {
				c.S.OK("R-C09-own-command-object", key, c.Pos(mk.Pos()), "only for a database that is not the command's own")
			} else {
				c.S.Bad("R-C09-own-command-object", key, c.Pos(mk.Pos()), fmt.Sprintf("%s (reachable from a command that EXEC can replay) locks a database through a new command object without knowing it is not the command's own database: inside MULTI/EXEC the new object's lock() blocks on the mutex EXEC holds", fnName(f)))
			}
		}
	}
	if n == 0 {
		c.S.Trivial("R-C09-own-command-object", "none", "-", "no handler locks through a new command object")
	}
}

// ---------------------------------------------------------------- R-C09-check-in-section

const textCheckInSection = "R-C09-check-in-section: EXEC decides whether a watched key has changed inside the critical section in which it then replays the queue: on every path from the call that examines the watches to the replay of the first queued command the database lock is never released. A check made in a critical section of its own lets two connections both pass it and both run their transactions (lost update under optimistic locking)"

func ruleC09CheckInSection(c *Ctx) {
	c.S.Rule("R-C09-check-in-section", textCheckInSection, 1)
	t := c.txn()
	lm := c.M.Locks()
	h := t.handlers["exec"]
	if len(t.errs) > 0 || h == nil || t.dispatchHandler == nil || lm.DB < 0 {
		c.S.Undecided("R-C09-check-in-section", "anchors", "-", "EXEC handler / dispatch function / lock class not found")
		return
	}
	// the watch check: a call (in the handler) of a function that reads clientState.watches and returns a bool
	readsWatches := func(g *ssa.Function) bool {
		if g == nil || !c.InPkg(g) || g.Signature.Results().Len() != 1 {
			return false
		}
		if b, ok := g.Signature.Results().At(0).Type().Underlying().(*types.Basic); !ok || b.Kind() != types.Bool {
			return false
		}
		for f := range c.M.Reach(g) {
			for _, a := range c.Accesses(f) {
				if a.Field == t.fWatches && !a.Write {
					return true
				}
			}
		}
		return false
	}
	releases := func(in ssa.Instruction) bool {
		call, ok := in.(ssa.CallInstruction)
		if !ok {
			return false
		}
		if _, isDefer := in.(*ssa.Defer); isDefer {
			return false // runs at the return, behind the replay
		}
		if op, cls, _ := lm.lockOp(call); op < 0 && cls == lm.DB {
			return true
		}
		for _, g := range c.Callees(call) {
			if fl := lm.fl[g]; fl != nil && (fl.removes.has(lm.DB) || fl.condRemoves.has(lm.DB)) {
				return true
			}
		}
		return false
	}
	isReplay := func(in ssa.Instruction) bool {
		call, ok := in.(*ssa.Call)
		if !ok {
			return false
		}
		if call.Call.StaticCallee() == t.dispatchHandler {
			return true
		}
		g := call.Call.StaticCallee()
		if g == nil || !c.InPkg(g) {
			return false
		}
		for _, in2 := range instrsOf(g) {
			if c2, ok := in2.(*ssa.Call); ok && c2.Call.StaticCallee() == t.dispatchHandler {
				return true
			}
		}
		return false
	}
	n := 0
	for _, in := range instrsOf(h) {
		call, ok := in.(*ssa.Call)
		if !ok || !readsWatches(call.Call.StaticCallee()) {
			continue
		}
		n++
		key := fmt.Sprintf("%s:watch-check#%d", fnName(h), n)
		bad := false
		seen := map[*ssa.BasicBlock]bool{}
		var walk func(b *ssa.BasicBlock, start int, released bool)
		walk = func(b *ssa.BasicBlock, start int, released bool) {
			for _, in2 := range b.Instrs[start:] {
				if isReplay(in2) {
					if released {
						bad = true
					}
					return
				}
				if releases(in2) {
					released = true
				}
			}
			for _, s := range b.Succs {
				if !seen[s] || released {
					if seen[s] && !released {
						continue
					}
					seen[s] = true
					walk(s, 0, released)
				}
			}
		}
		walk(call.Block(), instrIndex(call)+1, false)
		if !lm.LocallyHeld(call).has(lm.DB) {
			c.S.Bad("R-C09-check-in-section", key, c.Pos(call.Pos()), fmt.Sprintf("%s examines the watches without holding the database lock", fnName(h)))
		} else if bad {
			c.S.Bad("R-C09-check-in-section", key, c.Pos(call.Pos()), fmt.Sprintf("%s releases the database lock between the examination of the watches and the replay of the queue: another connection's EXEC can pass the same check in between, and both transactions run", fnName(h)))
		} else {
			c.S.OK("R-C09-check-in-section", key, c.Pos(call.Pos()), "the lock is held from the check to the replay")
		}
	}
	if n == 0 {
		c.S.Undecided("R-C09-check-in-section", "check", "-", "the EXEC handler calls no function that reads the watch table")
	}
}

// ---------------------------------------------------------------- R-name-object-agree

const textNameObject = "R-name-object-agree: where a function is handed a key's name together with the aggregate stored under a key (to insert into it and then record the modification under that name), the name is the one the aggregate was looked up or created under. `rpushUnlocked(srcKeyName, destList, …)` puts the element into the destination but gives the new version to the source: a WATCH on the destination does not see the change, and the wrong key's waiters are counted"

func ruleNameObjectAgree(c *Ctx) {
	c.S.Rule("R-name-object-agree", textNameObject, 1)
	isAgg := func(t types.Type) bool { return c.isPkgType(t, "storeList") || c.isPkgType(t, "redisDict") }
	isStr := func(t types.Type) bool {
		b, ok := t.Underlying().(*types.Basic)
		return ok && b.Kind() == types.String
	}
	// origin: the key-name argument of the lookup/creation call an aggregate value comes from (through merges and
	// result extraction); nil if unknown, several if they differ
	var origins func(v ssa.Value, depth int, seen map[ssa.Value]bool, out map[ssa.Value]bool) bool
	origins = func(v ssa.Value, depth int, seen map[ssa.Value]bool, out map[ssa.Value]bool) bool {
		if v == nil || depth > 6 {
			return false
		}
		if seen[v] {
			return true
		}
		seen[v] = true
		switch x := v.(type) {
		case *ssa.Phi:
			for _, e := range x.Edges {
				if isNilConst(e) {
					continue
				}
				if !origins(e, depth+1, seen, out) {
					return false
				}
			}
			return true
		case *ssa.Extract:
			return origins(x.Tuple, depth+1, seen, out)
		case *ssa.Call:
			g := x.Call.StaticCallee()
			if g == nil || !c.InPkg(g) {
				return false
			}
			// a lookup or create function of the command object / database: its first string argument is the key name
			for _, a := range x.Call.Args {
				if isStr(a.Type()) {
					out[a] = true
					return true
				}
			}
			return false
		case *ssa.UnOp:
			if al, ok := x.X.(*ssa.Alloc); ok && x.Op == token.MUL {
				okAll := false
				for _, r := range referrers(al) {
					if st, ok := r.(*ssa.Store); ok && st.Addr == ssa.Value(al) && !isNilConst(st.Val) {
						if !origins(st.Val, depth+1, seen, out) {
							return false
						}
						okAll = true
					}
				}
				return okAll
			}
		}
		return false
	}
	sameName := func(a, b ssa.Value) bool {
		if a == b || sameValue(a, b) {
			return true
		}
		// two reads of one variable that is assigned once (a parameter a closure captures lives in a cell)
		if ca, _ := singleStoreCell(a); ca != nil {
			if cb, _ := singleStoreCell(b); cb == ca {
				return true
			}
		}
		ka, oka := a.(*ssa.Const)
		kb, okb := b.(*ssa.Const)
		return oka && okb && ka.Value != nil && kb.Value != nil && ka.Value.ExactString() == kb.Value.ExactString()
	}
	n := 0
	for _, fn := range c.SrcFuncs() {
		k := 0
		for _, in := range instrsOf(fn) {
			call, ok := in.(*ssa.Call)
			if !ok {
				continue
			}
			g := call.Call.StaticCallee()
			if g == nil || !c.InPkg(g) || g.Signature.Recv() == nil || !c.isPkgType(g.Signature.Recv().Type(), "dataStoreCommand") {
				continue
			}
			// exactly one key-name string and one aggregate among the arguments
			var nameArg, aggArg ssa.Value
			cntS, cntA := 0, 0
			for _, a := range call.Call.Args[1:] {
				if isStr(a.Type()) {
					nameArg = a
					cntS++
				}
				if isAgg(a.Type()) {
					aggArg = a
					cntA++
				}
			}
			if cntS != 1 || cntA != 1 {
				continue
			}
			// the callee uses its string parameter as a key name: it hands it to a keyspace lookup/removal or to the
			// helper that records a modification (a pattern or an element text is not a name)
			nameIdx := -1
			for i, a := range call.Call.Args {
				if a == nameArg {
					nameIdx = i
				}
			}
			if nameIdx < 0 || nameIdx >= len(g.Params) || !usedAsKeyName(c, g, g.Params[nameIdx], 0) {
				continue
			}
			out := map[ssa.Value]bool{}
			if !origins(aggArg, 0, map[ssa.Value]bool{}, out) || len(out) == 0 {
				continue // a parameter or an object built here: nothing to compare with
			}
			k++
			n++
			key := fmt.Sprintf("%s:%s#%d", fnName(fn), fnName(g), k)
			agree := true
			for o := range out {
				if !sameName(o, nameArg) {
					agree = false
				}
			}
			if agree {
				c.S.OK("R-name-object-agree", key, c.Pos(call.Pos()), "the name passed along is the name the aggregate was obtained under")
			} else {
				c.S.Bad("R-name-object-agree", key, c.Pos(call.Pos()), fmt.Sprintf("%s hands %s an aggregate together with a key name it was not obtained under: the modification is recorded (version, waiters) for another key than the one that changed", fnName(fn), fnName(g)))
			}
		}
	}
	if n == 0 {
		c.S.Trivial("R-name-object-agree", "none", "-", "no call passes a key name together with an aggregate obtained by a lookup in the same function")
	}
}

// usedAsKeyName: the string parameter p of g is passed on as the key of a keyspace dictionary operation, or to a method
// of the command object / database that takes only a key name (the modification helper, a lookup).
func usedAsKeyName(c *Ctx, g *ssa.Function, p *ssa.Parameter, depth int) bool {
	if depth > 2 || g == nil {
		return false
	}
	fData := c.Field("dataStore", "data")
	for _, in := range instrsOf(g) {
		call, ok := in.(ssa.CallInstruction)
		if !ok {
			continue
		}
		h := call.Common().StaticCallee()
		if h == nil || !c.InPkg(h) {
			continue
		}
		for i, a := range call.Common().Args {
			if a != ssa.Value(p) {
				continue
			}
			if h.Signature.Recv() != nil && c.isPkgType(h.Signature.Recv().Type(), "redisDict") && len(call.Common().Args) > 0 {
				if _, f := loadedField(call.Common().Args[0]); f == fData && fData != nil {
					return true
				}
			}
			if h.Signature.Recv() != nil && (c.isPkgType(h.Signature.Recv().Type(), "dataStoreCommand") || c.isPkgType(h.Signature.Recv().Type(), "dataStore")) && h.Signature.Params().Len() == 1 {
				return true
			}
			if i < len(h.Params) && usedAsKeyName(c, h, h.Params[i], depth+1) {
				return true
			}
		}
	}
	return false
}

// ---------------------------------------------------------------- R-C10-bump-needs-change

const textBumpNeedsChange = "R-C10-bump-needs-change: a key gets a new version only where its value, type or deadline changes: every function of the command object that calls the version-assigning helper also contains (or calls) a change of a payload, of the keyspace or of a deadline. A command that only reads (TOUCH updates the access time) must not make another connection's EXEC abort"

func ruleC10BumpNeedsChange(c *Ctx) {
	c.S.Rule("R-C10-bump-needs-change", textBumpNeedsChange, 1)
	mm := c.M.Muts()
	fID := c.Field("storeKey", "id")
	fLast := c.Field("storeKey", "lastAccess")
	fCtr := c.Field("dataStore", "dataObjectNumber")
	if fID == nil || fCtr == nil || len(mm.errs) > 0 {
		c.S.Undecided("R-C10-bump-needs-change", "anchors", "-", "storeKey.id / counter / mutation model not available")
		return
	}
	// the bump helper: a function with a key-name parameter that stores to storeKey.id of a looked-up object
	var bump *ssa.Function
	for _, fn := range c.SrcFuncs() {
		if fn.Signature.Recv() == nil || !c.isPkgType(fn.Signature.Recv().Type(), "dataStoreCommand") || fn.Signature.Params().Len() != 1 || fn.Signature.Results().Len() != 0 {
			continue
		}
		stores, other := false, false
		for _, in := range instrsOf(fn) {
			if _, ok := isStoreTo(in, fID); ok {
				stores = true
			}
			if st, ok := in.(*ssa.Store); ok {
				if fa, ok := st.Addr.(*ssa.FieldAddr); ok && fieldOf(fa) != fID && fieldOf(fa) != fCtr {
					other = true
				}
			}
		}
		if stores && !other {
			bump = fn
		}
	}
	if bump == nil {
		c.S.Undecided("R-C10-bump-needs-change", "helper", "-", "no helper that only assigns a new version id found")
		return
	}
	// changes: mutation sites of the model other than the access time, the id and the counter
	var changes func(g *ssa.Function, depth int, seen map[*ssa.Function]bool) bool
	changes = func(g *ssa.Function, depth int, seen map[*ssa.Function]bool) bool {
		if g == nil || depth > 4 || seen[g] || !c.InPkg(g) {
			return false
		}
		seen[g] = true
		for _, s := range mm.sites[g] {
			if s.Field != nil && (s.Field == fLast || s.Field == fID || s.Field == fCtr) {
				continue
			}
			return true
		}
		for _, in := range instrsOf(g) {
			if call, ok := in.(ssa.CallInstruction); ok {
				for _, h := range c.CalleesData(call) {
					if h != bump && !seen[h] && (mm.dictStore[h] || mm.dictRem[h]) {
						return true
					}
					if h != bump && changes(h, depth+1, seen) {
						return true
					}
				}
			}
		}
		return false
	}
	// a function that only forwards its own key-name parameter to the helper (and changes nothing itself) is the helper
	// under another name: its callers are judged
	bumps := map[*ssa.Function]bool{bump: true}
	callsBump := func(fn *ssa.Function) (calls, forwardsParam bool) {
		forwardsParam = true
		for _, in := range instrsOf(fn) {
			if call, ok := in.(ssa.CallInstruction); ok && bumps[call.Common().StaticCallee()] {
				calls = true
				args := call.Common().Args
				if len(args) == 0 {
					forwardsParam = false
					continue
				}
				if _, isP := args[len(args)-1].(*ssa.Parameter); !isP {
					forwardsParam = false
				}
			}
		}
		return calls, calls && forwardsParam
	}
	for round := 0; round < 3; round++ {
		for _, fn := range c.SrcFuncs() {
			if bumps[fn] || fn.Signature.Recv() == nil || fn.Signature.Params().Len() != 1 || fn.Signature.Results().Len() != 0 {
				continue
			}
			if _, fwd := callsBump(fn); fwd {
				seen := map[*ssa.Function]bool{}
				for g := range bumps {
					seen[g] = true
				}
				if !changes(fn, 0, seen) {
					bumps[fn] = true
				}
			}
		}
	}
	n := 0
	for _, fn := range c.SrcFuncs() {
		if bumps[fn] {
			continue
		}
		calls, _ := callsBump(fn)
		if !calls {
			continue
		}
		n++
		key := fnName(fn) + ":bump-with-change"
		if changes(fn, 0, map[*ssa.Function]bool{}) {
			c.S.OK("R-C10-bump-needs-change", key, c.Pos(fn.Pos()), "the function changes a value, the keyspace or a deadline")
		} else if pc := c.CG.Nodes[fn]; pc != nil && len(pc.In) > 0 && func() bool {
			// a link-level helper: its callers make the change visible through it
			for _, p := range fn.Params {
				if c.isPkgType(p.Type(), "storeList") || c.isPkgType(p.Type(), "listItem") || c.isPkgType(p.Type(), "redisDict") {
					return true
				}
			}
			return false
		}() {
			c.S.Trivial("R-C10-bump-needs-change", key, c.Pos(fn.Pos()), "changes the aggregate it is given (link level)")
		} else {
			c.S.Bad("R-C10-bump-needs-change", key, c.Pos(fn.Pos()), fmt.Sprintf("%s gives a key a new version although it changes neither a value nor the keyspace nor a deadline: a WATCH on that key is invalidated by a command that only reads it", fnName(fn)))
		}
	}
	if n == 0 {
		c.S.Undecided("R-C10-bump-needs-change", "callers", "-", "nothing calls the version helper")
	}
}

// ---------------------------------------------------------------- R-C11-register-all

const textRegisterAll = "R-C11-register-all: a blocking command waits on every key it names: (whole-list) a handler that collects its key names into a slice and blocks hands the registration the slice, not one element of it (BLMPOP registered on keyNames[0] is never woken by a push to its second key); (no-early-exit) the function that joins the wait queue of each name in a list runs its loop to the end — no break or return inside it, whatever the names are (a repeated name that ends the loop leaves every later key unregistered)"

func ruleC11RegisterAll(c *Ctx) {
	c.S.Rule("R-C11-register-all", textRegisterAll, 1)
	a := c.blocking()
	if len(a.errs) > 0 || a.worker == nil {
		c.S.Undecided("R-C11-register-all", "anchors", "-", strings.Join(a.errs, "; "))
		return
	}
	hs, err := c.M.Handlers()
	if err != nil {
		c.S.Undecided("R-C11-register-all", "handlers", "-", err.Error())
		return
	}
	isStrSlice := func(t types.Type) bool {
		s, ok := t.Underlying().(*types.Slice)
		if !ok {
			return false
		}
		b, ok := s.Elem().Underlying().(*types.Basic)
		return ok && b.Kind() == types.String
	}
	n := 0
	// (whole-list)
	var toks []string
	for tok := range hs {
		toks = append(toks, tok)
	}
	sort.Strings(toks)
	done := map[*ssa.Function]bool{}
	for _, tok := range toks {
		h := hs[tok]
		if done[h] || !c.M.Reach(h)[a.worker] {
			continue
		}
		done[h] = true
		// key-name slices the handler builds: values of type []string that are results of append
		built := map[ssa.Value]bool{}
		for _, in := range instrsOf(h) {
			if call, ok := in.(*ssa.Call); ok {
				if b, ok := call.Call.Value.(*ssa.Builtin); ok && b.Name() == "append" && isStrSlice(call.Type()) {
					built[call] = true
				}
			}
			if phi, ok := in.(*ssa.Phi); ok && isStrSlice(phi.Type()) {
				built[phi] = true
			}
		}
		if len(built) == 0 {
			continue
		}
		n++
		key := fnName(h) + ":registers-with-the-whole-list"
		bad := ""
		for _, in := range instrsOf(h) {
			call, ok := in.(*ssa.Call)
			if !ok {
				continue
			}
			g := call.Call.StaticCallee()
			if g == nil || !c.InPkg(g) || !(g == a.worker || c.M.Reach(g)[a.worker]) {
				continue
			}
			for _, arg := range call.Call.Args {
				// an element of a built slice: *IndexAddr(slice, i)
				if u, ok := arg.(*ssa.UnOp); ok && u.Op == token.MUL {
					if ia, ok := u.X.(*ssa.IndexAddr); ok && built[ia.X] {
						bad = fnName(g)
					}
				}
			}
		}
		if bad != "" {
			c.S.Bad("R-C11-register-all", key, c.Pos(h.Pos()), fmt.Sprintf("%s collects several key names but blocks through %s with one element of the list: the command is only registered on that key", fnName(h), bad))
		} else {
			c.S.OK("R-C11-register-all", key, c.Pos(h.Pos()), "the blocking call is given the list of names as a whole")
		}
	}
	// (no-early-exit): functions with a []string parameter that yield a *wakeSignal (registration over several names)
	for _, fn := range c.SrcFuncs() {
		if fn.Signature.Results().Len() != 1 || !c.isPkgType(fn.Signature.Results().At(0).Type(), "wakeSignal") {
			continue
		}
		var par *ssa.Parameter
		for _, p := range fn.Params {
			if isStrSlice(p.Type()) {
				par = p
			}
		}
		if par == nil {
			continue
		}
		for _, hb := range fn.Blocks {
			ifi, ok := hb.Instrs[len(hb.Instrs)-1].(*ssa.If)
			if !ok || !blockInCycle(hb) {
				continue
			}
			bo, ok := ifi.Cond.(*ssa.BinOp)
			if !ok || bo.Op != token.LSS {
				continue
			}
			lc, ok := bo.Y.(*ssa.Call)
			if !ok {
				continue
			}
			if b, isB := lc.Call.Value.(*ssa.Builtin); !isB || b.Name() != "len" || lc.Call.Args[0] != ssa.Value(par) {
				continue
			}
			n++
			key := fnName(fn) + ":loop-over-" + par.Name()
			body, exit := hb.Succs[0], hb.Succs[1]
			early := false
			for _, b := range fn.Blocks {
				if !(b == body || body.Dominates(b)) {
					continue
				}
				if _, isRet := b.Instrs[len(b.Instrs)-1].(*ssa.Return); isRet {
					early = true
				}
				for _, s := range b.Succs {
					if s == exit || (!(s == body || body.Dominates(s)) && s != hb) {
						early = true
					}
				}
			}
			if early {
				c.S.Bad("R-C11-register-all", key, c.Pos(c.InstrPos(ifi)), fmt.Sprintf("%s can leave the loop over %s before its end: the names behind that point are not registered, a push to them wakes nobody", fnName(fn), par.Name()))
			} else {
				c.S.OK("R-C11-register-all", key, c.Pos(c.InstrPos(ifi)), "the loop over the names runs to its end")
			}
		}
	}
	if n == 0 {
		c.S.Trivial("R-C11-register-all", "none", "-", "no multi-key registration found")
	}
}

// ---------------------------------------------------------------- R-reply-not-dropped

const textReplyNotDropped = "R-reply-not-dropped: a reply that was computed is the reply that is sent: the result of a call that yields a respValue (a worker, the blocking wrapper, a handler) is used — assigned, returned, stored or passed on — never discarded. `blockOnListChangeMultiKey(…)` called for its side effect loses the -UNBLOCKED error that CLIENT UNBLOCK … ERROR put into it: the blocked BLPOP ends with a null instead"

func ruleReplyNotDropped(c *Ctx) {
	c.S.Rule("R-reply-not-dropped", textReplyNotDropped, 1)
	n, bad := 0, 0
	for _, fn := range c.SrcFuncs() {
		k := 0
		for _, in := range instrsOf(fn) {
			call, ok := in.(*ssa.Call)
			if !ok {
				continue
			}
			res := call.Call.Signature().Results()
			idx := -1
			for i := 0; i < res.Len(); i++ {
				if c.isPkgType(res.At(i).Type(), "respValue") {
					if _, isPtr := res.At(i).Type().(*types.Pointer); !isPtr {
						idx = i
					}
				}
			}
			if idx < 0 {
				continue
			}
			n++
			used := false
			if res.Len() == 1 {
				used = len(referrers(call)) > 0
			} else {
				for _, r := range referrers(call) {
					if ex, ok := r.(*ssa.Extract); ok && ex.Index == idx && len(referrers(ex)) > 0 {
						used = true
					}
				}
			}
			// only DebugRefs do not count as a use
			if used {
				real := false
				var vals []ssa.Value
				if res.Len() == 1 {
					vals = []ssa.Value{call}
				} else {
					for _, r := range referrers(call) {
						if ex, ok := r.(*ssa.Extract); ok && ex.Index == idx {
							vals = append(vals, ex)
						}
					}
				}
				for _, v := range vals {
					for _, r := range referrers(v) {
						if _, isDbg := r.(*ssa.DebugRef); !isDbg {
							real = true
						}
					}
				}
				used = real
			}
			if used {
				continue
			}
			k++
			bad++
			name := "a function value"
			if g := call.Call.StaticCallee(); g != nil {
				name = fnName(g)
			}
			c.S.Bad("R-reply-not-dropped", fmt.Sprintf("%s:dropped-reply#%d", fnName(fn), k), c.Pos(call.Pos()), fmt.Sprintf("%s calls %s and discards the reply it returns: what the callee decided to answer (an error put in by an unblock request, a WRONGTYPE) never reaches the client", fnName(fn), name))
		}
	}
	if bad == 0 {
		c.S.OK("R-reply-not-dropped", "all-replies", "-", fmt.Sprintf("the reply of each of %d reply-yielding calls is used", n))
	}
}

// ---------------------------------------------------------------- R-C19-saver-ends-with-save

const textSaverEnds = "R-C19-saver-ends-with-save: the goroutine that saves periodically is also the one that saves at termination: every way out of it (every return) passes through the cancellation arm of its select, i.e. is dominated by the arm that received from Done(), where the final save is made. A return from the timer arm (\"stop after a failed save\") leaves nobody to make the final save: a clean Close() writes nothing"

func ruleC19SaverEnds(c *Ctx) {
	c.S.Rule("R-C19-saver-ends-with-save", textSaverEnds, 1)
	// the saver: a goroutine function (target of a go statement) with a select in a loop that has a Done() arm and that
	// reaches the snapshot writer (gob.NewEncoder)
	reachesEncoder := func(fn *ssa.Function) bool {
		for f := range c.M.Reach(fn) {
			for _, in := range instrsOf(f) {
				if call, ok := in.(ssa.CallInstruction); ok {
					if g := call.Common().StaticCallee(); g != nil && g.String() == "encoding/gob.NewEncoder" {
						return true
					}
				}
			}
		}
		return false
	}
	n := 0
	for _, fn := range c.SrcFuncs() {
		var sel *ssa.Select
		doneIdx := -1
		for _, in := range instrsOf(fn) {
			s, ok := in.(*ssa.Select)
			if !ok || !blockInCycle(s.Block()) {
				continue
			}
			for i, st := range s.States {
				if call, ok := st.Chan.(*ssa.Call); ok {
					name := ""
					if call.Call.IsInvoke() {
						name = call.Call.Method.Name()
					} else if g := call.Call.StaticCallee(); g != nil {
						name = g.Name()
					}
					if name == "Done" {
						sel, doneIdx = s, i
					}
				}
			}
		}
		if sel == nil || !reachesEncoder(fn) {
			continue
		}
		n++
		key := fnName(fn) + ":returns-through-the-cancel-arm"
		// the block of the Done arm: true successor of `index == doneIdx`
		var arm *ssa.BasicBlock
		for _, r := range referrers(sel) {
			ex, ok := r.(*ssa.Extract)
			if !ok || ex.Index != 0 {
				continue
			}
			for _, r2 := range referrers(ex) {
				bo, ok := r2.(*ssa.BinOp)
				if !ok || bo.Op != token.EQL {
					continue
				}
				if k, isC := constInt(bo.Y); isC && int(k) == doneIdx {
					for _, r3 := range referrers(bo) {
						if ifi, ok := r3.(*ssa.If); ok {
							arm = ifi.Block().Succs[0]
						}
					}
				}
			}
		}
		if arm == nil {
			c.S.Trivial("R-C19-saver-ends-with-save", key, c.Pos(fn.Pos()), "not decided: the arms of the select are not dispatched by index tests")
			continue
		}
		bad := ""
		for _, b := range fn.Blocks {
			if _, ok := b.Instrs[len(b.Instrs)-1].(*ssa.Return); !ok {
				continue
			}
			if !(b == arm || arm.Dominates(b)) && sel.Block().Dominates(b) {
				bad = c.Pos(b.Instrs[len(b.Instrs)-1].Pos())
			}
		}
		// … and the cancel arm saves
		saves := false
		for _, b := range fn.Blocks {
			if !(b == arm || arm.Dominates(b)) {
				continue
			}
			for _, in := range b.Instrs {
				if call, ok := in.(ssa.CallInstruction); ok {
					for _, g := range c.Callees(call) {
						if c.InPkg(g) && reachesEncoder(g) {
							saves = true
						}
					}
				}
			}
		}
		switch {
		case bad != "":
			c.S.Bad("R-C19-saver-ends-with-save", key, bad, fmt.Sprintf("%s can return (at %s) from an arm other than the cancellation arm: the goroutine that would make the final save is gone, and termination saves nothing", fnName(fn), bad))
		case !saves:
			c.S.Bad("R-C19-saver-ends-with-save", key, c.Pos(fn.Pos()), fmt.Sprintf("the cancellation arm of %s does not save", fnName(fn)))
		default:
			c.S.OK("R-C19-saver-ends-with-save", key, c.Pos(fn.Pos()), "every return lies in the cancellation arm, which saves")
		}
	}
	if n == 0 {
		c.S.Trivial("R-C19-saver-ends-with-save", "none", "-", "no goroutine with a cancellation arm reaches the snapshot writer")
	}
}

// ---------------------------------------------------------------- R-C19-final-save-unconditional

const textFinalSaveUncond = "R-C19-final-save-unconditional: the save that runs at termination runs with a lane that is already cancelled — that is what started it. No function on the way from the saver to the snapshot writer makes its work depend on the cancellation of the lane it was handed (Err() / Done() of its lane parameter): a pass that gives up when the lane is done writes nothing at Close()"

func ruleC19FinalSaveUncond(c *Ctx) {
	c.S.Rule("R-C19-final-save-unconditional", textFinalSaveUncond, 1)
	reachesEncoder := map[*ssa.Function]bool{}
	for _, fn := range c.SrcFuncs() {
		for f := range c.M.Reach(fn) {
			for _, in := range instrsOf(f) {
				if call, ok := in.(ssa.CallInstruction); ok {
					if g := call.Common().StaticCallee(); g != nil && g.String() == "encoding/gob.NewEncoder" {
						reachesEncoder[fn] = true
					}
				}
			}
		}
	}
	n := 0
	for _, fn := range c.SrcFuncs() {
		if !reachesEncoder[fn] || fn.Parent() != nil {
			continue
		}
		// a lane / context parameter
		var lp *ssa.Parameter
		for _, p := range fn.Params {
			if _, isIface := p.Type().Underlying().(*types.Interface); isIface && strings.Contains(p.Type().String(), "Lane") {
				lp = p
			}
		}
		if lp == nil {
			continue
		}
		n++
		key := fnName(fn) + ":ignores-cancellation"
		bad := ""
		for _, in := range instrsOf(fn) {
			call, ok := in.(*ssa.Call)
			if !ok || !call.Call.IsInvoke() || call.Call.Value != ssa.Value(lp) {
				continue
			}
			if m := call.Call.Method.Name(); m == "Err" || m == "Done" {
				bad = m
			}
		}
		if bad != "" {
			c.S.Bad("R-C19-final-save-unconditional", key, c.Pos(fn.Pos()), fmt.Sprintf("%s asks its lane for %s(): the final save is made with the cancelled lane and would be abandoned", fnName(fn), bad))
		} else {
			c.S.OK("R-C19-final-save-unconditional", key, c.Pos(fn.Pos()), "does not look at the cancellation of its lane")
		}
	}
	if n == 0 {
		c.S.Trivial("R-C19-final-save-unconditional", "none", "-", "no function with a lane parameter reaches the snapshot writer")
	}
}

// ---------------------------------------------------------------- R-C12-transient-left

const textTransientLeft = "R-C12-transient-left: a function that moves the capture state into a transient value by a successful CompareAndSwap and, on some path, writes the state again (moves it on or back) does so on every path to a return: an early return taken while the state is the transient value leaves the connection in it for ever — the blocked command spins in its release, every later check of that client spins too"

func ruleC12TransientLeft(c *Ctx) {
	c.S.Rule("R-C12-transient-left", textTransientLeft, 1)
	fBlocked := c.Field("clientState", "blocked")
	if fBlocked == nil {
		c.S.Undecided("R-C12-transient-left", "anchor", "-", "clientState.blocked not found")
		return
	}
	onField := func(call ssa.CallInstruction) bool {
		args := call.Common().Args
		if len(args) == 0 {
			return false
		}
		fa, ok := args[0].(*ssa.FieldAddr)
		return ok && fieldOf(fa) == fBlocked
	}
	n := 0
	for _, fn := range c.SrcFuncs() {
		k := 0
		for _, b := range fn.Blocks {
			ifi, ok := b.Instrs[len(b.Instrs)-1].(*ssa.If)
			if !ok {
				continue
			}
			cond, neg := ifi.Cond, false
			for {
				u, isU := cond.(*ssa.UnOp)
				if !isU || u.Op != token.NOT {
					break
				}
				cond, neg = u.X, !neg
			}
			call, ok := cond.(*ssa.Call)
			if !ok || !strings.HasPrefix(fullCalleeName(call), "sync/atomic.CompareAndSwap") || !onField(call) {
				continue
			}
			succ := b.Succs[0]
			if neg {
				succ = b.Succs[1]
			}
			// writes of the state reachable from the success edge
			isWrite := func(in ssa.Instruction) bool {
				c2, ok := in.(*ssa.Call)
				if !ok || !onField(c2) {
					return false
				}
				name := fullCalleeName(c2)
				return strings.HasPrefix(name, "sync/atomic.Store") || strings.HasPrefix(name, "sync/atomic.CompareAndSwap") || strings.HasPrefix(name, "sync/atomic.Swap")
			}
			some := false
			for rb := range reachableFrom(succ, nil) {
				for _, in := range rb.Instrs {
					if isWrite(in) && in != ssa.Instruction(call) {
						some = true
					}
				}
			}
			if !some {
				continue // the state moved for good (capture, release): nothing to restore
			}
			k++
			n++
			key := fmt.Sprintf("%s:cas#%d", fnName(fn), k)
			// every path from the success edge to a return passes a write
			escape := false
			seen := map[*ssa.BasicBlock]bool{}
			var walk func(x *ssa.BasicBlock)
			walk = func(x *ssa.BasicBlock) {
				if escape || seen[x] {
					return
				}
				seen[x] = true
				for _, in := range x.Instrs {
					if isWrite(in) && in != ssa.Instruction(call) {
						return
					}
				}
				if _, isRet := x.Instrs[len(x.Instrs)-1].(*ssa.Return); isRet {
					escape = true
					return
				}
				for _, s := range x.Succs {
					walk(s)
				}
			}
			walk(succ)
			if escape {
				c.S.Bad("R-C12-transient-left", key, c.Pos(call.Pos()), fmt.Sprintf("%s moves the capture state by a successful CompareAndSwap and can return without writing it again, although another path does: the transient state is left behind", fnName(fn)))
			} else {
				c.S.OK("R-C12-transient-left", key, c.Pos(call.Pos()), "every path from the successful CompareAndSwap writes the state again before returning")
			}
		}
	}
	if n == 0 {
		c.S.Trivial("R-C12-transient-left", "none", "-", "no function moves the state transiently")
	}
}

// ---------------------------------------------------------------- R-C20-counted-no-send

const textCountedNoSend = "R-C20-counted-no-send: a goroutine that the termination WaitGroup counts never blocks on a plain channel send (outside a select that also has a cancellation arm): nothing that RequestTermination does empties such a channel — an accept loop parked on a full slot channel keeps WaitForTermination from returning while the clients stay connected"

func ruleC20CountedNoSend(c *Ctx) {
	c.S.Rule("R-C20-counted-no-send", textCountedNoSend, 1)
	isWG := func(call ssa.CallInstruction, method string) bool {
		return fullCalleeName(call) == "(*sync.WaitGroup)."+method
	}
	n := 0
	for _, fn := range c.SrcFuncs() {
		for _, in := range instrsOf(fn) {
			g, ok := in.(*ssa.Go)
			if !ok {
				continue
			}
			accounted := false
			for _, in2 := range instrsOf(fn) {
				if call, ok := in2.(*ssa.Call); ok && isWG(call, "Add") && instrDominates(in2, in) {
					accounted = true
				}
			}
			if !accounted {
				continue
			}
			for _, target := range c.Callees(g) {
				if !c.InPkg(target) || len(target.Blocks) == 0 {
					continue
				}
				n++
				key := fnName(target) + ":no-blocking-send"
				bad := ""
				for _, in3 := range instrsOf(target) {
					if s, ok := in3.(*ssa.Send); ok {
						// a buffered channel made in this very goroutine function with room for what is sent is not the case meant
						bad = c.Pos(s.Pos())
					}
				}
				if bad != "" {
					c.S.Bad("R-C20-counted-no-send", key, bad, fmt.Sprintf("the goroutine %s, which the WaitGroup counts, sends on a channel outside a select (at %s): if nobody receives, termination never completes", fnName(target), bad))
				} else {
					c.S.OK("R-C20-counted-no-send", key, c.Pos(g.Pos()), "no plain channel send in the goroutine function")
				}
			}
		}
	}
	if n == 0 {
		c.S.Trivial("R-C20-counted-no-send", "none", "-", "no goroutine accounted in a WaitGroup")
	}
}

// ---------------------------------------------------------------- R-C01-ends-only-on-read-error

const textEndsOnReadError = "R-C01-ends-only-on-read-error: while it waits for a command, the connection moves on in two ways only — wait again, or dispatch the command that is complete; any other state it queues from there (terminating the connection) is queued on the error side of the socket read. A well-formed command is answered however long it is: a reader that gives up on a request because the bytes received so far exceed a limit leaves the command, and everything pipelined behind it, unanswered"

func ruleC01EndsOnReadError(c *Ctx) {
	c.S.Rule("R-C01-ends-only-on-read-error", textEndsOnReadError, 1)
	a := c.cxn()
	if len(a.errs) > 0 || a.readFn == nil {
		c.S.Undecided("R-C01-ends-only-on-read-error", "anchors", "-", strings.Join(a.errs, "; "))
		return
	}
	fn := a.readFn
	// the error side of the read in this function
	var errSide []*ssa.BasicBlock
	for _, in := range instrsOf(fn) {
		call, ok := in.(*ssa.Call)
		if !ok {
			continue
		}
		isRead := isConnMethod(call, "Read")
		if !isRead && a.rawReadFn != nil && a.rawReadFn != fn && call.Call.StaticCallee() == a.rawReadFn {
			isRead = true // the helper that reads and reports the error
		}
		if !isRead {
			continue
		}
		errType := types.Universe.Lookup("error").Type()
		for _, r := range referrers(call) {
			ex, ok := r.(*ssa.Extract)
			if !ok || !types.Identical(ex.Type(), errType) {
				continue
			}
			for _, r2 := range referrers(ex) {
				bo, ok := r2.(*ssa.BinOp)
				if !ok || !(isNilConst(bo.X) || isNilConst(bo.Y)) {
					continue
				}
				for _, r3 := range referrers(bo) {
					if ifi, ok := r3.(*ssa.If); ok {
						if bo.Op == token.NEQ {
							errSide = append(errSide, ifi.Block().Succs[0])
						} else if bo.Op == token.EQL {
							errSide = append(errSide, ifi.Block().Succs[1])
						}
					}
				}
			}
		}
	}
	if len(errSide) == 0 {
		c.S.Trivial("R-C01-ends-only-on-read-error", fnName(fn)+":read-error-side", c.Pos(fn.Pos()), "not decided: the wait-state handler does not test the error of the read itself")
		return
	}
	n := 0
	for _, in := range instrsOf(fn) {
		call, ok := in.(*ssa.Call)
		if !ok {
			continue
		}
		st, _, ok := a.queuedState(call)
		if !ok || st == a.waitState || st == a.dispState {
			continue
		}
		n++
		key := fmt.Sprintf("%s:other-state#%d", fnName(fn), n)
		onErr := false
		for _, s := range errSide {
			if call.Block() == s || s.Dominates(call.Block()) {
				onErr = true
			}
		}
		if onErr {
			c.S.OK("R-C01-ends-only-on-read-error", key, c.Pos(call.Pos()), "queued on the error side of the socket read")
		} else {
			c.S.Bad("R-C01-ends-only-on-read-error", key, c.Pos(call.Pos()), fmt.Sprintf("%s ends the wait for a command (state %d) although the socket read did not fail: a request that is still arriving is dropped unanswered", fnName(fn), st))
		}
	}
	if n == 0 {
		c.S.Trivial("R-C01-ends-only-on-read-error", fnName(fn)+":none", c.Pos(fn.Pos()), "the wait-state handler queues only wait and dispatch")
	}
}

// ---------------------------------------------------------------- R-parallel-index

const textParallelIndex = "R-parallel-index: when the results of a call are walked with `for i, r := range results` and another slice is indexed with the same i, that slice is the one the results were computed from (the argument of the call): indexing a different, possibly longer slice pairs each result with the wrong element — WATCH a a b recorded b's version under a and did not watch b at all"

func ruleParallelIndex(c *Ctx) {
	c.S.Rule("R-parallel-index", textParallelIndex, 1)
	n := 0
	for _, fn := range c.SrcFuncs() {
		k := 0
		for _, hb := range fn.Blocks {
			// a range loop over the result R of a call: header `i < len(R)` with i a phi, R a call result
			ifi, ok := hb.Instrs[len(hb.Instrs)-1].(*ssa.If)
			if !ok || !blockInCycle(hb) {
				continue
			}
			bo, ok := ifi.Cond.(*ssa.BinOp)
			if !ok || bo.Op != token.LSS {
				continue
			}
			lc, ok := bo.Y.(*ssa.Call)
			if !ok {
				continue
			}
			if b, isB := lc.Call.Value.(*ssa.Builtin); !isB || b.Name() != "len" {
				continue
			}
			R, ok := lc.Call.Args[0].(*ssa.Call)
			if !ok || R.Call.StaticCallee() == nil || !c.InPkg(R.Call.StaticCallee()) {
				continue
			}
			if _, isSl := R.Type().Underlying().(*types.Slice); !isSl {
				continue
			}
			idx := bo.X // the index value compared with the length (i+1 in a rotated range loop)
			isIdx := func(v ssa.Value) bool {
				if v == idx {
					return true
				}
				// the loop variable itself (phi) when idx is phi+1
				if b2, ok := idx.(*ssa.BinOp); ok && b2.Op == token.ADD && v == b2.X {
					return false // the previous index: not the element being visited
				}
				return false
			}
			// the source slices: variadic/slice arguments of the call that produced R
			srcs := map[ssa.Value]bool{}
			for _, a := range R.Call.Args {
				if _, isSl := a.Type().Underlying().(*types.Slice); isSl {
					srcs[a] = true
				}
			}
			if len(srcs) == 0 {
				continue
			}
			body := hb.Succs[0]
			for _, b := range fn.Blocks {
				if !(b == body || body.Dominates(b)) {
					continue
				}
				for _, in := range b.Instrs {
					ia, ok := in.(*ssa.IndexAddr)
					if !ok || !isIdx(ia.Index) || ia.X == ssa.Value(R) {
						continue
					}
					if _, isSl := ia.X.Type().Underlying().(*types.Slice); !isSl {
						continue
					}
					k++
					n++
					key := fmt.Sprintf("%s:parallel-index#%d", fnName(fn), k)
					if srcs[ia.X] {
						c.S.OK("R-parallel-index", key, c.Pos(ia.Pos()), "indexes the slice the results were computed from")
					} else {
						c.S.Bad("R-parallel-index", key, c.Pos(ia.Pos()), fmt.Sprintf("%s walks the results of %s and indexes another slice than the one handed to that call with the same index: results and elements are paired wrongly when the two differ in length or order", fnName(fn), fnName(R.Call.StaticCallee())))
					}
				}
			}
		}
	}
	if n == 0 {
		c.S.Trivial("R-parallel-index", "none", "-", "no loop over the results of a call indexes a second slice")
	}
}

// ---------------------------------------------------------------- R-wrongtype-reported

const textWrongTypeReported = "R-wrongtype-reported: a typed accessor of a key object answers nil when the key holds another type. On the nil side of the test of such a result every path to a return reports it — the WRONGTYPE reply, a wrong-type status, a wrong-type flag — or asks another typed accessor first (a list, else a set …); it never goes on as if the key were missing or empty (SORT of a hash answered an empty array, and with STORE deleted the destination)"

func ruleWrongTypeReported(c *Ctx) {
	c.S.Rule("R-wrongtype-reported", textWrongTypeReported, 1)
	// typed accessors: methods of the key object that return an aggregate or the string bytes and have a nil return
	accessor := map[*ssa.Function]bool{}
	for _, fn := range c.SrcFuncs() {
		if fn.Signature.Recv() == nil || !c.isPkgType(fn.Signature.Recv().Type(), "storeKey") || fn.Signature.Results().Len() != 1 || fn.Signature.Params().Len() != 0 {
			continue
		}
		switch fn.Signature.Results().At(0).Type().Underlying().(type) {
		case *types.Pointer, *types.Slice:
		default:
			continue
		}
		for _, b := range fn.Blocks {
			if ret, ok := b.Instrs[len(b.Instrs)-1].(*ssa.Return); ok && isNilConst(ret.Results[0]) {
				accessor[fn] = true
			}
		}
	}
	if len(accessor) < 2 {
		c.S.Undecided("R-wrongtype-reported", "accessors", "-", "typed accessors of the key object not found")
		return
	}
	gWrong := c.Global("wrongTypeError")
	wrongConst := func(v ssa.Value) bool {
		k, ok := v.(*ssa.Const)
		if !ok || k.Value == nil {
			return false
		}
		n, ok := k.Type().(*types.Named)
		if !ok || n.Obj().Pkg() != c.Pkg.Types {
			return false
		}
		sc := c.Pkg.Types.Scope()
		for _, nm := range sc.Names() {
			if cst, ok := sc.Lookup(nm).(*types.Const); ok && strings.Contains(nm, "WRONG_TYPE") && types.Identical(cst.Type(), k.Type()) && cst.Val().ExactString() == k.Value.ExactString() {
				return true
			}
		}
		return false
	}
	isTrue := func(v ssa.Value) bool {
		k, ok := v.(*ssa.Const)
		return ok && k.Value != nil && k.Value.String() == "true"
	}
	reports := func(in ssa.Instruction) bool {
		switch x := in.(type) {
		case *ssa.UnOp:
			if g, ok := x.X.(*ssa.Global); ok && g == gWrong {
				return true
			}
		case *ssa.Store:
			if wrongConst(x.Val) || isTrue(x.Val) {
				return true
			}
			if g, ok := x.Val.(*ssa.Global); ok && g == gWrong {
				return true
			}
		case *ssa.MakeInterface:
			if g, ok := x.X.(*ssa.Global); ok && g == gWrong {
				return true
			}
		case *ssa.Return:
			for _, r := range x.Results {
				for _, leaf := range phiLeaves(r, map[ssa.Value]bool{}) {
					if wrongConst(leaf) || isTrue(leaf) {
						return true
					}
					if g, ok := leaf.(*ssa.Global); ok && g == gWrong {
						return true
					}
				}
			}
		case *ssa.Call:
			if g := x.Call.StaticCallee(); g != nil && accessor[g] {
				return true // the next typed accessor is asked
			}
			for _, a := range x.Call.Args {
				if g, ok := a.(*ssa.Global); ok && g == gWrong {
					return true
				}
			}
		}
		return false
	}
	// scope: what the commands the properties name can reach (the four families and the keyspace commands of C06)
	scope := map[*ssa.Function]bool{}
	if hs, err := c.M.Handlers(); err == nil {
		var toks []string
		for _, fam := range []string{"string", "list", "hash", "set"} {
			toks = append(toks, familyTokens[fam]...)
		}
		toks = append(toks, "del", "unlink", "exists", "type", "touch", "rename", "renamenx", "copy", "keys", "randomkey", "dbsize", "sort", "sort_ro")
		for _, tok := range toks {
			if h := hs[tok]; h != nil {
				for f := range c.M.Reach(h) {
					scope[f] = true
				}
			}
		}
	}
	n := 0
	for _, fn := range c.SrcFuncs() {
		if accessor[fn] || !scope[enclosing(fn)] {
			continue
		}
		k := 0
		for _, in := range instrsOf(fn) {
			call, ok := in.(*ssa.Call)
			if !ok || !accessor[call.Call.StaticCallee()] {
				continue
			}
			// the nil side of a test of the result
			var nilSide *ssa.BasicBlock
			for _, r := range referrers(call) {
				bo, ok := r.(*ssa.BinOp)
				if !ok || !(isNilConst(bo.X) || isNilConst(bo.Y)) {
					continue
				}
				for _, r2 := range referrers(bo) {
					if ifi, ok := r2.(*ssa.If); ok {
						if bo.Op == token.EQL {
							nilSide = ifi.Block().Succs[0]
						} else if bo.Op == token.NEQ {
							nilSide = ifi.Block().Succs[1]
						}
					}
				}
			}
			if nilSide == nil {
				continue // not tested here: R-typed-nil judges the dereference, the caller the report
			}
			k++
			n++
			key := fmt.Sprintf("%s:%s#%d", fnName(fn), call.Call.StaticCallee().Name(), k)
			silent := false
			seen := map[*ssa.BasicBlock]bool{}
			var walk func(b *ssa.BasicBlock)
			walk = func(b *ssa.BasicBlock) {
				if silent || seen[b] {
					return
				}
				seen[b] = true
				for _, in2 := range b.Instrs {
					if reports(in2) {
						return
					}
				}
				if _, isRet := b.Instrs[len(b.Instrs)-1].(*ssa.Return); isRet {
					silent = true
					return
				}
				for _, s := range b.Succs {
					walk(s)
				}
			}
			walk(nilSide)
			if silent {
				c.S.Bad("R-wrongtype-reported", key, c.Pos(call.Pos()), fmt.Sprintf("%s finds that the key holds another type (%s answered nil) and can return without saying so: the command treats a key of the wrong type like a missing one", fnName(fn), call.Call.StaticCallee().Name()))
			} else {
				c.S.OK("R-wrongtype-reported", key, c.Pos(call.Pos()), "the nil side reports the wrong type (or asks the next accessor) on every path")
			}
		}
	}
	if n == 0 {
		c.S.Undecided("R-wrongtype-reported", "sites", "-", "no tested accessor result found")
	}
}

// ---------------------------------------------------------------- R-scan-pattern-applied

const textScanPattern = "R-scan-pattern-applied: a function that is given a MATCH pattern (a string parameter that it hands, directly or through its callees, to the glob matcher) applies it to whatever it returns: on no path does it keep entries of a dictionary walk for its reply and return without having passed the pattern on. A fast path that answers a small collection in one reply, built from an iterator of its own, returns members the pattern excludes"

func ruleScanPatternApplied(c *Ctx) {
	c.S.Rule("R-scan-pattern-applied", textScanPattern, 1)
	// matchParam[g] = indexes of string parameters of g that reach the matcher's pattern
	matchParam := map[*ssa.Function]map[int]bool{}
	for _, fn := range c.SrcFuncs() {
		if isGlobMatcher(fn) {
			matchParam[fn] = map[int]bool{0: true}
		}
	}
	if len(matchParam) == 0 {
		c.S.Trivial("R-scan-pattern-applied", "matcher", "-", "no glob matcher found")
		return
	}
	derives := func(v ssa.Value, p *ssa.Parameter) bool {
		for i := 0; i < 4; i++ {
			if v == ssa.Value(p) {
				return true
			}
			switch x := v.(type) {
			case *ssa.Convert:
				v = x.X
			case *ssa.ChangeType:
				v = x.X
			case *ssa.UnOp:
				// a local the converted pattern was put into (`pat = []byte(pattern)` under `if pattern != ""`)
				al, ok := x.X.(*ssa.Alloc)
				if !ok || x.Op != token.MUL {
					return false
				}
				for _, r := range referrers(al) {
					if st, ok := r.(*ssa.Store); ok && st.Addr == ssa.Value(al) {
						sv := st.Val
						for j := 0; j < 3; j++ {
							if cv, ok := sv.(*ssa.Convert); ok {
								sv = cv.X
							}
						}
						if sv == ssa.Value(p) {
							return true
						}
					}
				}
				return false
			case *ssa.Phi:
				for _, e := range x.Edges {
					ev := e
					for j := 0; j < 3; j++ {
						if cv, ok := ev.(*ssa.Convert); ok {
							ev = cv.X
						}
					}
					if ev == ssa.Value(p) {
						return true
					}
				}
				return false
			default:
				return false
			}
		}
		return false
	}
	for round := 0; round < 4; round++ {
		for _, fn := range c.SrcFuncs() {
			for _, in := range instrsOf(fn) {
				call, ok := in.(ssa.CallInstruction)
				if !ok {
					continue
				}
				for _, g := range c.CalleesData(call) {
					for idx := range matchParam[g] {
						if idx >= len(call.Common().Args) {
							continue
						}
						for pi, p := range fn.Params {
							if derives(call.Common().Args[idx], p) {
								if matchParam[fn] == nil {
									matchParam[fn] = map[int]bool{}
								}
								matchParam[fn][pi] = true
							}
						}
					}
				}
			}
		}
	}
	isDictIter := func(in ssa.Instruction) bool {
		call, ok := in.(*ssa.Call)
		if !ok {
			return false
		}
		g := call.Call.StaticCallee()
		if g == nil || g.Signature.Recv() == nil || !c.isPkgType(g.Signature.Recv().Type(), "redisDict") || g.Signature.Results().Len() != 1 {
			return false
		}
		rt := g.Signature.Results().At(0).Type()
		_, isPtr := rt.Underlying().(*types.Pointer)
		return isPtr && !c.isPkgType(rt, "redisDict") // an iterator object
	}
	n := 0
	var fns []*ssa.Function
	for fn := range matchParam {
		fns = append(fns, fn)
	}
	sort.Slice(fns, func(i, j int) bool { return fnName(fns[i]) < fnName(fns[j]) })
	for _, fn := range fns {
		if isGlobMatcher(fn) || fn.Parent() != nil {
			continue
		}
		for pi := range matchParam[fn] {
			p := fn.Params[pi]
			n++
			key := fmt.Sprintf("%s:%s", fnName(fn), p.Name())
			passes := func(in ssa.Instruction) bool {
				call, ok := in.(ssa.CallInstruction)
				if !ok {
					return false
				}
				for _, a := range call.Common().Args {
					if derives(a, p) {
						return true
					}
				}
				return false
			}
			hasIter := false
			for _, in := range instrsOf(fn) {
				if isDictIter(in) {
					hasIter = true
				}
			}
			type st struct {
				b    *ssa.BasicBlock
				iter bool
			}
			seen := map[st]bool{}
			bad := false
			var walk func(b *ssa.BasicBlock, iter bool)
			walk = func(b *ssa.BasicBlock, iter bool) {
				if bad || seen[st{b, iter}] {
					return
				}
				seen[st{b, iter}] = true
				for _, in := range b.Instrs {
					if passes(in) {
						return // the pattern is handed on: from here it is the callee's business
					}
					// an entry of the walk is kept for the reply: an append inside a loop of a function that makes an iterator
					if call, ok := in.(*ssa.Call); ok && hasIter && blockInCycle(b) {
						if bi, isB := call.Call.Value.(*ssa.Builtin); isB && bi.Name() == "append" {
							iter = true
						}
					}
				}
				if _, isRet := b.Instrs[len(b.Instrs)-1].(*ssa.Return); isRet {
					if iter {
						bad = true
					}
					return
				}
				for _, s := range b.Succs {
					walk(s, iter)
				}
			}
			walk(fn.Blocks[0], false)
			if bad {
				c.S.Bad("R-scan-pattern-applied", key, c.Pos(fn.Pos()), fmt.Sprintf("%s can walk a dictionary and return without ever passing its pattern (%s) on: that reply is not filtered by MATCH", fnName(fn), p.Name()))
			} else {
				c.S.OK("R-scan-pattern-applied", key, c.Pos(fn.Pos()), "every path that walks a dictionary hands the pattern on first")
			}
		}
	}
	if n == 0 {
		c.S.Trivial("R-scan-pattern-applied", "none", "-", "no function hands a pattern parameter to the matcher")
	}
}

// ---------------------------------------------------------------- R-float-finite

const textFloatFinite = "R-float-finite: a float sum that becomes the stored value of a counter (INCRBYFLOAT, HINCRBYFLOAT: the sum is formatted and stored) is tested with math.IsInf and math.IsNaN first, and the non-finite side does not reach the store: 1e308 + 1e308, or a stored \"inf\", must be refused (“increment would produce NaN or Infinity”) and leave the value as it was. Sibling rule: the hash form tests its sum, the string form has to as well"

func ruleFloatFinite(c *Ctx) {
	c.S.Rule("R-float-finite", textFloatFinite, 1)
	isF64 := func(t types.Type) bool {
		b, ok := t.Underlying().(*types.Basic)
		return ok && b.Kind() == types.Float64
	}
	// same variable: identical value, or loads of one local cell, or a merge that contains it
	var sameVar func(a, b ssa.Value, depth int) bool
	sameVar = func(a, b ssa.Value, depth int) bool {
		if a == b {
			return true
		}
		if depth > 3 {
			return false
		}
		ua, ok1 := a.(*ssa.UnOp)
		ub, ok2 := b.(*ssa.UnOp)
		if ok1 && ok2 && ua.Op == token.MUL && ub.Op == token.MUL && ua.X == ub.X {
			return true
		}
		if p, ok := a.(*ssa.Phi); ok {
			for _, e := range p.Edges {
				if sameVar(e, b, depth+1) {
					return true
				}
			}
		}
		if p, ok := b.(*ssa.Phi); ok {
			for _, e := range p.Edges {
				if sameVar(a, e, depth+1) {
					return true
				}
			}
		}
		// a sum stored into the cell the other value is loaded from
		if ub != nil && ok2 && ub.Op == token.MUL {
			if al, ok := ub.X.(*ssa.Alloc); ok {
				for _, r := range referrers(al) {
					if st, ok := r.(*ssa.Store); ok && st.Addr == ssa.Value(al) && st.Val == a {
						return true
					}
				}
			}
		}
		if ua != nil && ok1 && ua.Op == token.MUL {
			if al, ok := ua.X.(*ssa.Alloc); ok {
				for _, r := range referrers(al) {
					if st, ok := r.(*ssa.Store); ok && st.Addr == ssa.Value(al) && st.Val == b {
						return true
					}
				}
			}
		}
		return false
	}
	n := 0
	for _, fn := range c.SrcFuncs() {
		if fn.Signature.Recv() == nil || !c.isPkgType(fn.Signature.Recv().Type(), "dataStoreCommand") {
			continue
		}
		k := 0
		for _, in := range instrsOf(fn) {
			sum, ok := in.(*ssa.BinOp)
			if !ok || (sum.Op != token.ADD && sum.Op != token.SUB) || !isF64(sum.Type()) {
				continue
			}
			// is the sum formatted in this function (strconv.FormatFloat / fmt with a float)?
			var formats []*ssa.Call
			for _, in2 := range instrsOf(fn) {
				call, ok := in2.(*ssa.Call)
				if !ok {
					continue
				}
				g := call.Call.StaticCallee()
				if g == nil || g.String() != "strconv.FormatFloat" || len(call.Call.Args) == 0 {
					continue
				}
				if sameVar(sum, call.Call.Args[0], 0) {
					formats = append(formats, call)
				}
			}
			if len(formats) == 0 {
				continue
			}
			k++
			n++
			key := fmt.Sprintf("%s:float-sum#%d", fnName(fn), k)
			okAll := true
			isFormat := func(in2 ssa.Instruction) bool {
				for _, f := range formats {
					if in2 == ssa.Instruction(f) {
						return true
					}
				}
				return false
			}
			type stt struct {
				b        *ssa.BasicBlock
				inf, nan bool
			}
			seen := map[stt]bool{}
			var walk func(b *ssa.BasicBlock, start int, inf, nan bool)
			walk = func(b *ssa.BasicBlock, start int, inf, nan bool) {
				if !okAll {
					return
				}
				if start == 0 {
					if seen[stt{b, inf, nan}] {
						return
					}
					seen[stt{b, inf, nan}] = true
				}
				for _, in2 := range b.Instrs[start:] {
					if isFormat(in2) && !(inf && nan) {
						okAll = false
						return
					}
				}
				if ifi, ok := b.Instrs[len(b.Instrs)-1].(*ssa.If); ok {
					if tcall, ok := ifi.Cond.(*ssa.Call); ok && tcall.Call.StaticCallee() != nil && len(tcall.Call.Args) > 0 && sameVar(sum, tcall.Call.Args[0], 0) {
						switch tcall.Call.StaticCallee().String() {
						case "math.IsInf":
							walk(b.Succs[0], 0, inf, nan)
							walk(b.Succs[1], 0, true, nan)
							return
						case "math.IsNaN":
							walk(b.Succs[0], 0, inf, nan)
							walk(b.Succs[1], 0, inf, true)
							return
						}
					}
				}
				for _, s2 := range b.Succs {
					walk(s2, 0, inf, nan)
				}
			}
			walk(sum.Block(), instrIndex(sum)+1, false, false)
			if okAll {
				c.S.OK("R-float-finite", key, c.Pos(sum.Pos()), "the sum is tested with IsInf and IsNaN before it is formatted")
			} else {
				c.S.Bad("R-float-finite", key, c.Pos(sum.Pos()), fmt.Sprintf("%s formats and stores a float sum that was not tested with math.IsInf / math.IsNaN: an overflowing increment (or a stored \"inf\") stores +Inf or NaN as the value", fnName(fn)))
			}
		}
	}
	if n == 0 {
		c.S.Trivial("R-float-finite", "none", "-", "no float sum is formatted for storing")
	}
}

// ---------------------------------------------------------------- R-C07-getex-needs-option

const textGetexOption = "R-C07-getex-needs-option: GETEX changes the deadline only when the request carries an expiry option; without one it is GET. In the GETEX handler every call that can write a deadline is dominated by a test of what the request contains (the number of arguments, or the presence of an option in the argument map) — a deadline computed from defaults (“no option” = “no deadline”) makes a plain GETEX k clear the key's TTL and invalidate a WATCH"

func ruleC07GetexNeedsOption(c *Ctx) {
	c.S.Rule("R-C07-getex-needs-option", textGetexOption, 1)
	hs, err := c.M.Handlers()
	fExp := c.Field("storeKey", "expiresAt")
	if err != nil || fExp == nil || hs["getex"] == nil {
		c.S.Trivial("R-C07-getex-needs-option", "handler", "-", "GETEX handler / storeKey.expiresAt not found: not decided")
		return
	}
	h := hs["getex"]
	var argsParam *ssa.Parameter
	for _, p := range h.Params {
		if _, isMap := p.Type().Underlying().(*types.Map); isMap {
			argsParam = p
		}
	}
	writesDeadline := func(g *ssa.Function) bool {
		for f := range c.M.Reach(g) {
			for _, in := range instrsOf(f) {
				if _, ok := isStoreTo(in, fExp); ok {
					return true
				}
			}
		}
		return false
	}
	// does the condition look at what the request contains?
	var looksAtArgs func(v ssa.Value, depth int) bool
	looksAtArgs = func(v ssa.Value, depth int) bool {
		if v == nil || depth > 5 || argsParam == nil {
			return false
		}
		switch x := v.(type) {
		case *ssa.BinOp:
			return looksAtArgs(x.X, depth+1) || looksAtArgs(x.Y, depth+1)
		case *ssa.UnOp:
			return looksAtArgs(x.X, depth+1)
		case *ssa.Extract:
			if lk, ok := x.Tuple.(*ssa.Lookup); ok && lk.CommaOk && lk.X == ssa.Value(argsParam) {
				return x.Index == 1
			}
			if ta, ok := x.Tuple.(*ssa.TypeAssert); ok && ta.CommaOk {
				return x.Index == 1 && looksAtArgs(ta.X, depth+1)
			}
		case *ssa.Lookup:
			return x.X == ssa.Value(argsParam)
		case *ssa.Call:
			if b, ok := x.Call.Value.(*ssa.Builtin); ok && b.Name() == "len" && x.Call.Args[0] == ssa.Value(argsParam) {
				return true
			}
		case *ssa.Phi:
			for _, e := range x.Edges {
				if looksAtArgs(e, depth+1) {
					return true
				}
			}
		}
		return false
	}
	n := 0
	for _, in := range instrsOf(h) {
		call, ok := in.(*ssa.Call)
		if !ok {
			continue
		}
		g := call.Call.StaticCallee()
		if g == nil || !c.InPkg(g) || !writesDeadline(g) {
			continue
		}
		n++
		key := fmt.Sprintf("%s:deadline-writer#%d", fnName(h), n)
		guarded := false
		for b := call.Block(); b != nil && b.Idom() != nil; b = b.Idom() {
			d := b.Idom()
			if ifi, ok := d.Instrs[len(d.Instrs)-1].(*ssa.If); ok && looksAtArgs(ifi.Cond, 0) {
				guarded = true
			}
		}
		if guarded {
			c.S.OK("R-C07-getex-needs-option", key, c.Pos(call.Pos()), "reached only after a test of what the request contains")
		} else {
			c.S.Bad("R-C07-getex-needs-option", key, c.Pos(call.Pos()), fmt.Sprintf("%s calls %s, which writes a deadline, whatever the request contains: GETEX k without an option sets the deadline computed from defaults (none) — the TTL is cleared", fnName(h), fnName(g)))
		}
	}
	if n == 0 {
		c.S.Trivial("R-C07-getex-needs-option", "none", "-", "the GETEX handler calls nothing that writes a deadline")
	}
}

// ---------------------------------------------------------------- R-C05-smove-reply

const textSmoveReply = "R-C05-smove-reply: SMOVE answers 1 whenever it took the member out of the source — also when the destination already held it. In the function that moves a member, every reply stored after the removal from the source is the constant 1, not the number of members the destination gained (which is 0 for a member that is in both sets)"

func ruleC05SmoveReply(c *Ctx) {
	c.S.Rule("R-C05-smove-reply", textSmoveReply, 1)
	hs, err := c.M.Handlers()
	mm := c.M.Muts()
	fData := c.Field("respValue", "data")
	if err != nil || hs["smove"] == nil || fData == nil {
		c.S.Trivial("R-C05-smove-reply", "handler", "-", "SMOVE handler not found: not decided")
		return
	}
	fKs := c.Field("dataStore", "data")
	n := 0
	for f := range c.M.Reach(hs["smove"]) {
		for _, in := range instrsOf(f) {
			rm, ok := in.(*ssa.Call)
			if !ok || !mm.dictRem[rm.Call.StaticCallee()] || len(rm.Call.Args) == 0 {
				continue
			}
			if _, fld := loadedField(rm.Call.Args[0]); fld == fKs {
				continue // the keyspace: dropping the emptied source key
			}
			n++
			key := fmt.Sprintf("%s:reply-after-removal#%d", fnName(f), n)
			bad := ""
			seen := map[*ssa.BasicBlock]bool{}
			var walk func(b *ssa.BasicBlock, start int)
			walk = func(b *ssa.BasicBlock, start int) {
				for _, in2 := range b.Instrs[start:] {
					st, ok := isStoreTo(in2, fData)
					if !ok {
						continue
					}
					v := st.Val
					if mi, ok := v.(*ssa.MakeInterface); ok {
						v = mi.X
					}
					if k, isC := constInt(v); !(isC && k == 1) {
						bad = c.Pos(st.Pos())
					}
				}
				for _, s := range b.Succs {
					if !seen[s] {
						seen[s] = true
						walk(s, 0)
					}
				}
			}
			walk(rm.Block(), instrIndex(rm)+1)
			if bad != "" {
				c.S.Bad("R-C05-smove-reply", key, bad, fmt.Sprintf("%s removes the member from the source and then answers with a computed number (at %s): SMOVE of a member that the destination already holds answers 0 although it was moved", fnName(f), bad))
			} else {
				c.S.OK("R-C05-smove-reply", key, c.Pos(rm.Pos()), "after the removal the reply is the constant 1")
			}
		}
	}
	if n == 0 {
		c.S.Trivial("R-C05-smove-reply", "none", "-", "no removal from a set reachable from the SMOVE handler")
	}
}

// ---------------------------------------------------------------- R-C05-single-operand

const textSingleOperand = "R-C05-single-operand: the intersection (union, difference) of a single set is that set: a set-algebra worker that has collected its operand sets does not answer with the empty set because there are fewer than two of them — only because there are none (or one is missing). `if len(sets) < 2 { return empty }` makes SINTERCARD 1 key answer 0 for a set that has members"

func ruleC05SingleOperand(c *Ctx) {
	c.S.Rule("R-C05-single-operand", textSingleOperand, 1)
	n := 0
	for _, fn := range c.SrcFuncs() {
		if fn.Signature.Results().Len() < 1 || !c.isPkgType(fn.Signature.Results().At(0).Type(), "redisDict") {
			continue
		}
		k := 0
		for _, b := range fn.Blocks {
			ifi, ok := b.Instrs[len(b.Instrs)-1].(*ssa.If)
			if !ok {
				continue
			}
			// find a comparison of len(<slice of dictionaries>) with a constant anywhere in the condition (|| chains are
			// lowered to blocks, so the comparison is the condition of some block)
			bo, ok := ifi.Cond.(*ssa.BinOp)
			if !ok {
				continue
			}
			lc, ok := bo.X.(*ssa.Call)
			if !ok {
				continue
			}
			bi, isB := lc.Call.Value.(*ssa.Builtin)
			if !isB || bi.Name() != "len" {
				continue
			}
			sl, isSl := lc.Call.Args[0].Type().Underlying().(*types.Slice)
			if !isSl || !c.isPkgType(sl.Elem(), "redisDict") {
				continue
			}
			kc, isC := constInt(bo.Y)
			if !isC {
				continue
			}
			// the side on which the number of sets is small
			var small *ssa.BasicBlock
			maxSmall := int64(-1) // the largest len(sets) on the small side
			switch bo.Op {
			case token.LSS:
				small, maxSmall = b.Succs[0], kc-1
			case token.LEQ:
				small, maxSmall = b.Succs[0], kc
			case token.EQL:
				small, maxSmall = b.Succs[0], kc
			case token.GEQ:
				small, maxSmall = b.Succs[1], kc-1
			case token.GTR:
				small, maxSmall = b.Succs[1], kc
			default:
				continue
			}
			// does the small side return (without looking at the sets)?
			ret, isRet := small.Instrs[len(small.Instrs)-1].(*ssa.Return)
			if !isRet {
				continue
			}
			_ = ret
			k++
			n++
			key := fmt.Sprintf("%s:few-operands#%d", fnName(fn), k)
			if maxSmall >= 1 {
				c.S.Bad("R-C05-single-operand", key, c.Pos(c.InstrPos(ifi)), fmt.Sprintf("%s answers without looking at the sets when there are at most %d of them: with one operand the result is that operand, not the empty set", fnName(fn), maxSmall))
			} else {
				c.S.OK("R-C05-single-operand", key, c.Pos(c.InstrPos(ifi)), "only the case of no set at all is answered without looking at the sets")
			}
		}
	}
	if n == 0 {
		c.S.Trivial("R-C05-single-operand", "none", "-", "no worker branches on the number of operand sets")
	}
}
