package main

func init() {
	register(&PropSpec{
		ID:          "C16",
		Explanation: "A1 lockset",
		Rules:       []func(*Ctx){ruleA1("A1-guarded", anyClass)},
	})
	register(&PropSpec{ID: "C19", Explanation: "x", Rules: []func(*Ctx){ruleA4Dirty}})
	register(&PropSpec{ID: "C13", Explanation: "x", Rules: []func(*Ctx){ruleA7(nil, 150)}})
	register(&PropSpec{ID: "C07", Explanation: "x", Rules: []func(*Ctx){ruleA6}})
	register(&PropSpec{ID: "C06", Explanation: "x", Rules: []func(*Ctx){ruleA4Empty}})
	register(&PropSpec{ID: "C10", Explanation: "x", Rules: []func(*Ctx){ruleA4Version}})
}
