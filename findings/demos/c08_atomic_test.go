package redisemu

import (
	"fmt"
	"strconv"
	"strings"
	"sync"
	"testing"
	"time"
)

// TOUCH k1 k2 must count the keys at one instant: with k1,k2 only ever created and deleted together
// (MSET / DEL are single critical sections) it may answer 0 or 2, never 1.
func TestDemoC08TouchNotAtomic(t *testing.T) {
	s := startDemo(t, "")
	defer s.stop()
	stop := time.Now().Add(1500 * time.Millisecond)
	var wg sync.WaitGroup
	wg.Add(2)
	go func() {
		defer wg.Done()
		c := s.dial(t)
		for time.Now().Before(stop) {
			c.do("MSET", "k1", "a", "k2", "b")
			c.do("DEL", "k1", "k2")
		}
	}()
	ones := 0
	go func() {
		defer wg.Done()
		c := s.dial(t)
		for time.Now().Before(stop) {
			if c.do("TOUCH", "k1", "k2") == ":1" {
				ones++
			}
		}
	}()
	wg.Wait()
	if ones > 0 {
		t.Errorf("TOUCH k1 k2 answered 1 %d times although k1 and k2 only exist together", ones)
	}
}

// BLPOP a b: pushes to a and b happen atomically together (MULTI/EXEC) and only this client pops, so
// element i can come from b only after element i came from a (a is examined first).
func TestDemoC08BlpopMultiKeyNotAtomic(t *testing.T) {
	s := startDemo(t, "")
	defer s.stop()
	stop := time.Now().Add(2500 * time.Millisecond)
	var wg sync.WaitGroup
	wg.Add(2)
	go func() {
		defer wg.Done()
		c := s.dial(t)
		for i := 1; time.Now().Before(stop); i++ {
			c.do("MULTI")
			c.do("RPUSH", "a", strconv.Itoa(i))
			c.do("RPUSH", "b", strconv.Itoa(i))
			c.do("EXEC")
		}
	}()
	bad := ""
	go func() {
		defer wg.Done()
		c := s.dial(t)
		gotA := map[string]bool{}
		for time.Now().Before(stop) {
			r := c.do("BLPOP", "a", "b", "0.05")
			if strings.HasPrefix(r, `["a" `) {
				gotA[strings.TrimSuffix(strings.TrimPrefix(r, `["a" `), "]")] = true
			} else if strings.HasPrefix(r, `["b" `) {
				v := strings.TrimSuffix(strings.TrimPrefix(r, `["b" `), "]")
				if !gotA[v] && bad == "" {
					bad = fmt.Sprintf("got %s from b before it was popped from a (a was non-empty when b was popped)", v)
				}
			}
		}
	}()
	wg.Wait()
	if bad != "" {
		t.Error("BLPOP a b: " + bad)
	}
}
