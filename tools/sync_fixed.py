#!/usr/bin/env python3
"""Synchronises the `fixed` list of known_findings.json with the fix: commits in /repo."""
import json, subprocess, re
KF='/verif/known_findings.json'
kf=json.load(open(KF))
have={f['commit']:f for f in kf['fixed']}
log=subprocess.check_output(['git','-C','/repo','log','--format=%h\t%s','8e5bdeb..HEAD']).decode().strip().split('\n')
rules=[('WATCH','C10'),('FLUSHDB','C14'),('TOUCH','C08'),('BLPOP','C08'),('SETNX','C02'),('HINCRBY compares','C04'),('HSETNX','C04'),('LMOVE','C03'),
 ('COPY of a hash','C06'),('COPY of a list','C06'),('data race','C16'),('mark the database dirty','C19'),('dirty','C19'),('empty','C06'),('expired','C07'),('deadline has passed','C07'),
 ('EXEC aborted','C09')]
out=[]
for l in reversed(log):
    h,s=l.split('\t',1)
    if not s.startswith('fix:'): continue
    if h in have:
        out.append(have[h]); continue
    prop='?'
    for pat,p in rules:
        if pat in s: prop=p; break
    e={'property':prop,'commit':h,'what':s[5:],'demo':''}
    out.append(e)
for f in out:
    f['line']='fixed: property=%s %s %s'%(f['property'],f['commit'],f['what'])
kf['fixed']=out
json.dump(kf,open(KF,'w'),indent=1)
print(len(out),'fixed entries;', [f['commit'] for f in out if f['property']=='?'])
