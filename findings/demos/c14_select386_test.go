package redisemu

// C14 (32-bit platforms): run with GOARCH=386 and the repository's own _test.go files moved away (they do not
// compile for 386); on 64-bit platforms the conversion keeps every bit and the test passes before and after the fix.

import "testing"

func TestDemoC14SelectHugeIndex(t *testing.T) {
	s := startDemo(t, "")
	defer s.stop()
	c := s.dial(t)
	c.do("SELECT", "3")
	c.do("SET", "k", "in3")
	expect(t, "SELECT 4294967296", c.do("SELECT", "4294967296"), "-ERR DB index is out of range")
	expect(t, "still in database 3", c.do("GET", "k"), "\"in3\"")
	expect(t, "SELECT -4294967291", c.do("SELECT", "-4294967291"), "-ERR DB index is out of range")
}
