package main

// Rules written against the seventh batch of seeded changes.

import (
	"fmt"
	"go/token"
	"go/types"

	"golang.org/x/tools/go/ssa"
)

// ---------------------------------------------------------------- R-dict-shrink-factor

const textShrinkFactor = "R-dict-shrink-factor: the dictionary is shrunk by exactly the factor its collision scan proved: where a function scans the bucket array in steps of s and then calls the rehash function with a smaller size, that size is len(buckets)/s — computed by one division, not by a loop that keeps halving. The scan over even/odd pairs shows that ONE halving loses nothing; halving further overwrites entries that collide at the smaller size (fields vanish while HLEN keeps counting them)"

func ruleDictShrinkFactor(c *Ctx) {
	const id = "R-dict-shrink-factor"
	c.S.Rule(id, textShrinkFactor, 1)
	var fBuckets *types.Var
	if nt := c.NamedType("redisDict"); nt != nil {
		if st, ok := nt.Underlying().(*types.Struct); ok {
			for i := 0; i < st.NumFields(); i++ {
				if _, ok := st.Field(i).Type().Underlying().(*types.Slice); ok {
					fBuckets = st.Field(i)
				}
			}
		}
	}
	mm := c.M.Muts()
	if fBuckets == nil || len(mm.errs) > 0 {
		c.S.Undecided(id, "anchors", "-", "bucket array / mutation model not available")
		return
	}
	isLenBuckets := func(v ssa.Value) bool {
		call, ok := v.(*ssa.Call)
		if !ok {
			return false
		}
		b, ok := call.Call.Value.(*ssa.Builtin)
		if !ok || b.Name() != "len" {
			return false
		}
		_, f := loadedField(call.Call.Args[0])
		return f == fBuckets
	}
	// the rehash function: a method of the dictionary that allocates a new bucket array of a size given as parameter
	rehash := map[*ssa.Function]bool{}
	for _, fn := range c.SrcFuncs() {
		if fn.Signature.Recv() == nil || !c.isPkgType(fn.Signature.Recv().Type(), "redisDict") || len(fn.Params) != 2 {
			continue
		}
		for _, in := range instrsOf(fn) {
			if ms, ok := in.(*ssa.MakeSlice); ok {
				v := ms.Len
				for i := 0; i < 3; i++ {
					if cv, ok := v.(*ssa.Convert); ok {
						v = cv.X
					}
				}
				if v == ssa.Value(fn.Params[1]) {
					rehash[fn] = true
				}
			}
		}
	}
	n := 0
	for _, fn := range c.SrcFuncs() {
		if !mm.dictRem[fn] {
			continue
		}
		k := 0
		for _, in := range instrsOf(fn) {
			call, ok := in.(*ssa.Call)
			if !ok || !rehash[call.Call.StaticCallee()] || len(call.Call.Args) < 2 {
				continue
			}
			k++
			n++
			key := fmt.Sprintf("%s:shrink#%d", fnName(fn), k)
			v := call.Call.Args[1]
			for i := 0; i < 3; i++ {
				if cv, ok := v.(*ssa.Convert); ok {
					v = cv.X
				}
			}
			good := false
			if bo, ok := v.(*ssa.BinOp); ok && (bo.Op == token.QUO || bo.Op == token.SHR) {
				x := bo.X
				for i := 0; i < 3; i++ {
					if cv, ok := x.(*ssa.Convert); ok {
						x = cv.X
					}
				}
				if kc, isC := constInt(bo.Y); isC && isLenBuckets(x) && (bo.Op == token.QUO && kc == 2 || bo.Op == token.SHR && kc == 1) {
					good = true
				}
			}
			if good {
				c.S.OK(id, key, c.Pos(call.Pos()), "new size = len(buckets)/2, what the pairwise scan proved")
			} else {
				c.S.Bad(id, key, c.Pos(call.Pos()), fmt.Sprintf("%s shrinks the table to a size that is not len(buckets)/2 (a loop or another computation): the scan over bucket pairs only shows that one halving is free of collisions", fnName(fn)))
			}
		}
	}
	if n == 0 {
		c.S.Trivial(id, "none", "-", "the removal primitive does not shrink the table")
	}
}

// ---------------------------------------------------------------- R-C14-table-cache

const textTableCache = "R-C14-table-cache: a second container of databases kept beside the database table (a remembered snapshot: a further field of the database set holding *dataStore values) is written by every function that adds an entry to the table. A snapshot built once and handed out for ever makes FLUSHALL (and the saver) skip every database that was first selected afterwards"

func ruleC14TableCache(c *Ctx) {
	const id = "R-C14-table-cache"
	c.S.Rule(id, textTableCache, 0)
	nt := c.NamedType("dataStoreSet")
	fDbs := c.Field("dataStoreSet", "dbs")
	if nt == nil || fDbs == nil {
		c.S.Undecided(id, "anchors", "-", "dataStoreSet.dbs not found")
		return
	}
	holdsDb := func(t types.Type) bool {
		switch u := t.Underlying().(type) {
		case *types.Slice:
			return c.isPkgType(u.Elem(), "dataStore")
		case *types.Map:
			return c.isPkgType(u.Elem(), "dataStore")
		}
		return false
	}
	var memo []*types.Var
	if st, ok := nt.Underlying().(*types.Struct); ok {
		for i := 0; i < st.NumFields(); i++ {
			if f := st.Field(i); f != fDbs && holdsDb(f.Type()) {
				memo = append(memo, f)
			}
		}
	}
	if len(memo) == 0 {
		c.S.Trivial(id, "none", "-", "the database table is the only container of databases")
		return
	}
	for _, fn := range c.SrcFuncs() {
		adds := false
		for _, in := range instrsOf(fn) {
			if mu, ok := in.(*ssa.MapUpdate); ok {
				if base, f := loadedField(mu.Map); f == fDbs && !isFresh(base) {
					adds = true
				}
			}
		}
		if !adds {
			continue
		}
		for _, m := range memo {
			key := fmt.Sprintf("%s:%s", fnName(fn), m.Name())
			ok := false
			for g := range c.M.Reach(fn) {
				for _, in := range instrsOf(g) {
					if _, isSt := isStoreTo(in, m); isSt {
						ok = true
					}
				}
			}
			if ok {
				c.S.OK(id, key, c.Pos(fn.Pos()), "the remembered container is written where the table grows")
			} else {
				c.S.Bad(id, key, c.Pos(fn.Pos()), fmt.Sprintf("%s adds a database to the table and leaves %s as it is: whoever reads the remembered container does not see the new database", fnName(fn), m.Name()))
			}
		}
	}
}

// ---------------------------------------------------------------- R-C09-reject-keeps-mode

const textRejectKeepsMode = "R-C09-reject-keeps-mode: a command that is refused while it is being queued (unknown name, wrong arity) does not end the transaction: the function that decides “queue or run” and the parsing helpers it calls contain nothing that puts the connection back into normal mode (queue set to nil / mode flag cleared) or replaces the watch table. Otherwise the commands sent after the refused one run at once, visible to other clients before EXEC"

func ruleC09RejectKeepsMode(c *Ctx) {
	const id = "R-C09-reject-keeps-mode"
	c.S.Rule(id, textRejectKeepsMode, 1)
	t := c.txn()
	if len(t.errs) > 0 {
		c.S.Undecided(id, "anchors", "-", t.errs[0])
		return
	}
	scope := map[*ssa.Function]bool{}
	var add func(f *ssa.Function, d int)
	add = func(f *ssa.Function, d int) {
		if f == nil || scope[f] || d > 2 || !c.InPkg(f) || f == t.dispatchHandler {
			return
		}
		scope[f] = true
		for _, in := range instrsOf(f) {
			if call, ok := in.(*ssa.Call); ok {
				add(call.Call.StaticCallee(), d+1)
			}
		}
	}
	add(t.prepare, 0)
	var fns []*ssa.Function
	for f := range scope {
		fns = append(fns, f)
	}
	sortFns(fns)
	bad := ""
	for _, f := range fns {
		for _, in := range instrsOf(f) {
			if t.endsMulti(in) {
				bad = fmt.Sprintf("%s leaves MULTI at %s", fnName(f), c.Pos(c.InstrPos(in)))
			}
			if st, ok := isStoreTo(in, t.fWatches); ok {
				if fa, ok := st.Addr.(*ssa.FieldAddr); !ok || !isFresh(fa.X) {
					bad = fmt.Sprintf("%s replaces the watch table at %s", fnName(f), c.Pos(st.Pos()))
				}
			}
		}
	}
	key := fnName(t.prepare) + ":queueing"
	if bad != "" {
		c.S.Bad(id, key, c.Pos(t.prepare.Pos()), fmt.Sprintf("while a command is being queued, %s: a refused command silently ends the transaction and what follows it runs immediately", bad))
	} else {
		c.S.OK(id, key, c.Pos(t.prepare.Pos()), fmt.Sprintf("%d function(s) of the queueing path examined: none ends MULTI or replaces the watches", len(fns)))
	}
}

// ---------------------------------------------------------------- R-C01-invalid-zero-length

const textInvalidZeroLength = "R-C01-invalid-zero-length: the connection consumes `length` bytes whenever the parser hands back a non-zero length, so a parse that is not valid (the value has not arrived completely) hands back 0: in the parser's entry function (value, length, valid) every return on which valid can be false returns the constant 0 as length — the length is computed only behind the test of valid. `length = pos - start` before that test makes a command that is split across two reads answer `-ERR Invalid command input` and cuts its head off the buffer"

func ruleC01InvalidZeroLength(c *Ctx) {
	const id = "R-C01-invalid-zero-length"
	c.S.Rule(id, textInvalidZeroLength, 1)
	n := 0
	for _, fn := range c.SrcFuncs() {
		if fn.Signature.Recv() == nil || !c.isPkgType(fn.Signature.Recv().Type(), "respDeserializer") {
			continue
		}
		res := fn.Signature.Results()
		if res.Len() != 3 || !c.isPkgType(res.At(0).Type(), "respValue") {
			continue
		}
		ib, ok1 := res.At(1).Type().Underlying().(*types.Basic)
		bb, ok2 := res.At(2).Type().Underlying().(*types.Basic)
		if !ok1 || !ok2 || ib.Info()&types.IsInteger == 0 || bb.Kind() != types.Bool {
			continue
		}
		k := 0
		for _, b := range fn.Blocks {
			ret, ok := b.Instrs[len(b.Instrs)-1].(*ssa.Return)
			if !ok || len(ret.Results) != 3 {
				continue
			}
			k++
			n++
			key := fmt.Sprintf("%s:return#%d", fnName(fn), k)
			length, valid := ret.Results[1], ret.Results[2]
			if kc, isC := constInt(length); isC && kc == 0 {
				c.S.OK(id, key, c.Pos(c.InstrPos(ret)), "length 0")
				continue
			}
			// valid is known to be true here: a constant, or the return is behind the true side of a test of it
			known := false
			if kv, isC := valid.(*ssa.Const); isC && kv.Value != nil && kv.Value.String() == "true" {
				known = true
			}
			for d := b; d != nil && !known; d = d.Idom() {
				p := d.Idom()
				if p == nil {
					break
				}
				ifi, ok := p.Instrs[len(p.Instrs)-1].(*ssa.If)
				if !ok {
					continue
				}
				cond, neg := ifi.Cond, false
				for {
					u, ok := cond.(*ssa.UnOp)
					if !ok || u.Op != token.NOT {
						break
					}
					cond, neg = u.X, !neg
				}
				if cond != valid && resolveLocal(cond) != resolveLocal(valid) {
					continue
				}
				side := 0
				if neg {
					side = 1
				}
				s := p.Succs[side]
				if len(s.Preds) == 1 && (s == d || s.Dominates(b)) {
					known = true
				}
			}
			if !known {
				known = lengthStoresGuarded(fn, length, valid)
			}
			if known {
				c.S.OK(id, key, c.Pos(c.InstrPos(ret)), "the length is returned behind the test of valid")
			} else {
				c.S.Bad(id, key, c.Pos(c.InstrPos(ret)), fmt.Sprintf("%s can return a non-zero length together with valid = false: the connection consumes the bytes of a value that has not arrived completely", fnName(fn)))
			}
		}
	}
	if n == 0 {
		c.S.Undecided(id, "none", "-", "no parser entry with results (value, length, valid)")
	}
}

// ---------------------------------------------------------------- R-C14-handler-bound-db

const textHandlerBoundDb = "R-C14-handler-bound-db: a command works on the database it was bound to when it was accepted (the command object in its context), not on whatever the connection has selected when the handler runs: no function reachable from a command handler reads the connection's current-database field. Inside MULTI a queued SELECT changes that field before the commands behind it execute — `COPY src dst` that takes its destination database from the connection copies a key of database 0 into database 3"

func ruleC14HandlerBoundDb(c *Ctx) {
	const id = "R-C14-handler-bound-db"
	c.S.Rule(id, textHandlerBoundDb, 0)
	fDs := c.Field("clientState", "ds")
	hs, err := c.M.Handlers()
	if fDs == nil || err != nil {
		c.S.Undecided(id, "anchors", "-", "clientState.ds / handlers not found")
		return
	}
	t := c.txn()
	reach := map[*ssa.Function]bool{}
	for _, h := range hs {
		for f := range c.M.Reach(h) {
			reach[f] = true
		}
	}
	// the dispatcher functions EXEC replays through bind a command: they are the one place that reads the selection
	if t.prepare != nil {
		delete(reach, t.prepare)
	}
	n := 0
	for _, fn := range c.SrcFuncs() {
		if !reach[enclosing(fn)] {
			continue
		}
		k := 0
		for _, in := range instrsOf(fn) {
			u, ok := in.(*ssa.UnOp)
			if !ok || u.Op != token.MUL {
				continue
			}
			fa, ok := u.X.(*ssa.FieldAddr)
			if !ok || fieldOf(fa) != fDs {
				continue
			}
			k++
			n++
			c.S.Bad(id, fmt.Sprintf("%s:reads-selection#%d", fnName(fn), k), c.Pos(u.Pos()), fmt.Sprintf("%s, reachable from a command handler, reads the connection's current database instead of the database its command object was bound to: after a queued SELECT it works on another database than the rest of the command", fnName(fn)))
		}
	}
	if n == 0 {
		c.S.Trivial(id, "none", "-", "no handler code reads clientState.ds")
	}
}

// ---------------------------------------------------------------- R-payload-store-typed

const textPayloadStoreTyped = "R-payload-store-typed: the type flag and the payload of a key object change together: a payload stored into a key object that was looked up (not created in this function) is stored only after that object was asked for its typed value (the typed accessor, a test or a store of its flags) on every path — an in-place update of a value of the same type. `sk.payload = set` into whatever the destination held, with the flag written only when the key had to be created, leaves a string key whose payload is a dictionary: every set command answers WRONGTYPE for the result of SUNIONSTORE"

func rulePayloadStoreTyped(c *Ctx) {
	const id = "R-payload-store-typed"
	c.S.Rule(id, textPayloadStoreTyped, 1)
	fPayload := c.Field("storeKey", "payload")
	fFlags := c.Field("storeKey", "flags")
	if fPayload == nil || fFlags == nil {
		c.S.Undecided(id, "anchors", "-", "storeKey.payload / flags not found")
		return
	}
	accessor := map[*ssa.Function]bool{}
	for _, fn := range c.SrcFuncs() {
		if fn.Signature.Recv() != nil && c.isPkgType(fn.Signature.Recv().Type(), "storeKey") {
			for _, in := range instrsOf(fn) {
				if _, f := loadedField(valueOf(in)); f == fFlags {
					accessor[fn] = true
				}
			}
		}
	}
	n := 0
	for _, fn := range c.SrcFuncs() {
		if fn.Signature.Recv() != nil && c.isPkgType(fn.Signature.Recv().Type(), "storeKey") {
			continue // methods of the key object itself (clone, constructors)
		}
		k := 0
		for _, in := range instrsOf(fn) {
			st, ok := isStoreTo(in, fPayload)
			if !ok {
				continue
			}
			fa := st.Addr.(*ssa.FieldAddr)
			if isFreshDeep(fa.X, 0) {
				continue
			}
			sk := fa.X
			// the object may be one of several values (a merge of “looked up” and “created”): each on its own
			same := func(v ssa.Value) bool {
				if v == sk || sameValue(v, sk) {
					return true
				}
				for _, leaf := range phiLeaves(sk, map[ssa.Value]bool{}) {
					if leaf == v {
						return true
					}
				}
				for _, leaf := range phiLeaves(v, map[ssa.Value]bool{}) {
					if leaf == sk {
						return true
					}
				}
				return false
			}
			asks := func(in2 ssa.Instruction) bool {
				if call, ok := in2.(ssa.CallInstruction); ok {
					if h := call.Common().StaticCallee(); h != nil && accessor[h] && len(call.Common().Args) > 0 && same(call.Common().Args[0]) {
						return true
					}
				}
				switch x := in2.(type) {
				case *ssa.UnOp:
					if fa2, ok := x.X.(*ssa.FieldAddr); ok && x.Op == token.MUL && fieldOf(fa2) == fFlags && same(fa2.X) {
						return true
					}
				case *ssa.Store:
					if fa2, ok := x.Addr.(*ssa.FieldAddr); ok && fieldOf(fa2) == fFlags && same(fa2.X) {
						return true
					}
				}
				return false
			}
			k++
			n++
			key := fmt.Sprintf("%s:payload-into-existing#%d", fnName(fn), k)
			if _, isParam := sk.(*ssa.Parameter); isParam {
				c.S.Trivial(id, key, c.Pos(st.Pos()), "the key object is the caller's: judged where it is obtained")
				continue
			}
			// backwards from the store: every path from the entry passes an asking instruction (or creates the object)
			bad := false
			seen := map[*ssa.BasicBlock]bool{}
			var back func(b *ssa.BasicBlock, end int)
			back = func(b *ssa.BasicBlock, end int) {
				for i := end - 1; i >= 0; i-- {
					if asks(b.Instrs[i]) {
						return
					}
				}
				if len(b.Preds) == 0 {
					bad = true
					return
				}
				for pi, p := range b.Preds {
					// on the way in through a merge of the object: a freshly created object needs no question
					if phi, ok := sk.(*ssa.Phi); ok && phi.Block() == b && pi < len(phi.Edges) && isFreshDeep(phi.Edges[pi], 0) {
						continue
					}
					if !seen[p] {
						seen[p] = true
						back(p, len(p.Instrs))
					}
				}
			}
			back(st.Block(), instrIndex(st))
			if bad {
				c.S.Bad(id, key, c.Pos(st.Pos()), fmt.Sprintf("%s stores a payload into a key object it looked up without having asked for (or written) its type on some path: the object can keep the flag of another type", fnName(fn)))
			} else {
				c.S.OK(id, key, c.Pos(st.Pos()), "the object's type was asked for (or written) on every path to the store")
			}
		}
	}
	if n == 0 {
		c.S.Trivial(id, "none", "-", "payloads are only stored into key objects created in the same function")
	}
}

// ---------------------------------------------------------------- R-list-pop-precondition

const textPopPrecondition = "R-list-pop-precondition: a helper that takes a node off one END of a list (it sets list.head = item.next, or list.tail = item.prev, and never looks at the node's other neighbour) is only handed the node that IS that end: at every call the node argument was read from that end of the same list, and nothing that writes list links runs between that read and the call. LMOVE k k LEFT LEFT pushes first and then pops “the head” it read before the push: the new node is cut off, an element is lost and the count stays"

func ruleListPopPrecondition(c *Ctx) {
	const id = "R-list-pop-precondition"
	c.S.Rule(id, textPopPrecondition, 1)
	fNext, fPrev := c.Field("listItem", "next"), c.Field("listItem", "prev")
	fHead, fTail := c.Field("storeList", "head"), c.Field("storeList", "tail")
	if fNext == nil || fPrev == nil || fHead == nil || fTail == nil {
		c.S.Undecided(id, "anchors", "-", "list types not found")
		return
	}
	type popInfo struct {
		end      *types.Var // fHead or fTail
		listIdx  int
		itemIdx  int
		endField string
	}
	pops := map[*ssa.Function]popInfo{}
	for _, fn := range c.SrcFuncs() {
		li, ii := -1, -1
		for i, p := range fn.Params {
			if pt, ok := p.Type().Underlying().(*types.Pointer); ok {
				if c.isPkgType(pt.Elem(), "storeList") {
					li = i
				}
				if c.isPkgType(pt.Elem(), "listItem") {
					ii = i
				}
			}
		}
		if li < 0 || ii < 0 {
			continue
		}
		item := ssa.Value(fn.Params[ii])
		reads := map[*types.Var]bool{}
		var end *types.Var
		for _, in := range instrsOf(fn) {
			if u, ok := in.(*ssa.UnOp); ok && u.Op == token.MUL {
				if fa, ok := u.X.(*ssa.FieldAddr); ok && (fa.X == item || outerBase(fa.X) == item) {
					reads[fieldOf(fa)] = true
				}
			}
			if st, ok := in.(*ssa.Store); ok {
				fa, ok := st.Addr.(*ssa.FieldAddr)
				if !ok || fa.X != ssa.Value(fn.Params[li]) {
					continue
				}
				if base, f := loadedField(st.Val); base != nil && (base == item || outerBase(base) == item) {
					if fieldOf(fa) == fHead && f == fNext {
						end = fHead
					}
					if fieldOf(fa) == fTail && f == fPrev {
						end = fTail
					}
				}
			}
		}
		if end == fHead && !reads[fPrev] {
			pops[fn] = popInfo{fHead, li, ii, "head"}
		}
		if end == fTail && !reads[fNext] {
			pops[fn] = popInfo{fTail, li, ii, "tail"}
		}
	}
	// functions that (transitively) write list links
	writes := map[*ssa.Function]bool{}
	for _, fn := range c.SrcFuncs() {
		for _, in := range instrsOf(fn) {
			for _, f := range []*types.Var{fNext, fPrev, fHead, fTail} {
				if st, ok := isStoreTo(in, f); ok {
					if fa, ok := st.Addr.(*ssa.FieldAddr); !ok || !isFresh(fa.X) {
						writes[fn] = true
					}
				}
			}
		}
	}
	writesLinks := func(g *ssa.Function) bool {
		if g == nil || !c.InPkg(g) {
			return false
		}
		for f := range c.M.Reach(g) {
			if writes[f] {
				return true
			}
		}
		return false
	}
	n := 0
	for _, fn := range c.SrcFuncs() {
		k := 0
		for _, in := range instrsOf(fn) {
			call, ok := in.(*ssa.Call)
			if !ok {
				continue
			}
			pi, isPop := pops[call.Call.StaticCallee()]
			if !isPop || pi.itemIdx >= len(call.Call.Args) || pi.listIdx >= len(call.Call.Args) {
				continue
			}
			k++
			n++
			key := fmt.Sprintf("%s:%s#%d", fnName(fn), fnName(call.Call.StaticCallee()), k)
			list, item := call.Call.Args[pi.listIdx], call.Call.Args[pi.itemIdx]
			if _, isParam := item.(*ssa.Parameter); isParam {
				c.S.Trivial(id, key, c.Pos(call.Pos()), "the node is the caller's: judged at its call sites")
				continue
			}
			// the read of that end of the same list
			var loads []*ssa.UnOp
			for _, leaf := range phiLeaves(item, map[ssa.Value]bool{}) {
				leaf = resolveLocal(leaf)
				if u, ok := leaf.(*ssa.UnOp); ok && u.Op == token.MUL {
					if fa, ok := u.X.(*ssa.FieldAddr); ok && fieldOf(fa) == pi.end && (fa.X == list || sameValue(fa.X, list)) {
						loads = append(loads, u)
					}
				}
			}
			if len(loads) == 0 {
				c.S.Bad(id, key, c.Pos(call.Pos()), fmt.Sprintf("%s hands %s a node that was not read from the %s of that list: the helper unlinks it as if it were the %s and cuts off what lies beyond it", fnName(fn), fnName(call.Call.StaticCallee()), pi.endField, pi.endField))
				continue
			}
			between := ""
			for _, ld := range loads {
				after := reachableFrom(ld.Block(), nil)
				after[ld.Block()] = true
				for _, in2 := range instrsOf(fn) {
					c2, ok := in2.(*ssa.Call)
					if !ok || c2 == call || !writesLinks(c2.Call.StaticCallee()) {
						continue
					}
					if !after[c2.Block()] || (c2.Block() == ld.Block() && instrIndex(c2) < instrIndex(ld) && !blockInCycle(ld.Block())) {
						continue
					}
					reaches := c2.Block() == call.Block() && instrIndex(c2) < instrIndex(call) || (c2.Block() != call.Block() && reachableFrom(c2.Block(), nil)[call.Block()])
					// a path load → c2 → call that does not pass the load again
					if reaches && !(blockInCycle(ld.Block()) && ld.Block().Dominates(c2.Block()) && pathMustPass(c2.Block(), call.Block(), ld.Block())) {
						between = fmt.Sprintf("%s at %s", fnName(c2.Call.StaticCallee()), c.Pos(c2.Pos()))
					}
				}
			}
			if between != "" {
				c.S.Bad(id, key, c.Pos(call.Pos()), fmt.Sprintf("%s reads the %s of a list, then lets %s change list links, then hands the node it read to %s as the %s: when both lists are the same the node is no longer at that end", fnName(fn), pi.endField, between, fnName(call.Call.StaticCallee()), pi.endField))
			} else {
				c.S.OK(id, key, c.Pos(call.Pos()), fmt.Sprintf("the node is the %s read from the same list, nothing writes links in between", pi.endField))
			}
		}
	}
	if n == 0 {
		c.S.Trivial(id, "none", "-", "no call of a helper that pops one end of a list")
	}
}

// pathMustPass: every path from a to b passes through block via (a, b in a loop whose body re-reads at via)
func pathMustPass(a, b, via *ssa.BasicBlock) bool {
	if a == via || b == via {
		return true
	}
	seen := map[*ssa.BasicBlock]bool{via: true}
	st := []*ssa.BasicBlock{a}
	for len(st) > 0 {
		x := st[len(st)-1]
		st = st[:len(st)-1]
		if seen[x] {
			continue
		}
		seen[x] = true
		if x == b {
			return false
		}
		st = append(st, x.Succs...)
	}
	return true
}

// ---------------------------------------------------------------- R-C05-operand-per-iteration

const textOperandPerIteration = "R-C05-operand-per-iteration: in a loop over the operand keys of a set operation the operand's set is determined in that iteration: no dictionary variable that the loop only reads from (looks members up in, iterates) keeps its value from the previous iteration on some path. `m2 := newRedisDict()` hoisted in front of the loop and assigned only when the key exists makes a missing operand count as a repeat of the operand before it: SINTER a b nokey answers a∩b instead of the empty set"

func ruleC05OperandPerIteration(c *Ctx) {
	const id = "R-C05-operand-per-iteration"
	c.S.Rule(id, textOperandPerIteration, 1)
	mm := c.M.Muts()
	n := 0
	for _, fn := range c.SrcFuncs() {
		res := fn.Signature.Results()
		if fn.Blocks == nil || res.Len() < 1 {
			continue
		}
		rt := res.At(0).Type()
		if sl, isSl := rt.Underlying().(*types.Slice); isSl {
			rt = sl.Elem()
		}
		if p, ok := rt.(*types.Pointer); !ok || !c.isPkgType(p.Elem(), "redisDict") {
			continue
		}
		hasOperandLoop := false
		for _, p := range fn.Params {
			if sl, ok := p.Type().Underlying().(*types.Slice); ok && sl.Elem().String() == "string" {
				hasOperandLoop = true
			}
		}
		if !hasOperandLoop {
			continue
		}
		k := 0
		for _, b := range fn.Blocks {
			if !blockInCycle(b) {
				continue
			}
			for _, in := range b.Instrs {
				phi, ok := in.(*ssa.Phi)
				if !ok {
					break
				}
				pt, ok := phi.Type().Underlying().(*types.Pointer)
				if !ok || !c.isPkgType(pt.Elem(), "redisDict") {
					continue
				}
				// a loop head: one edge comes from outside the loop
				isHead := false
				for _, p := range b.Preds {
					if !blockReaches(b, p) {
						isHead = true
					}
				}
				if !isHead {
					continue
				}
				k++
				n++
				key := fmt.Sprintf("%s:carried-set#%d", fnName(fn), k)
				if !phiCarries(phi) {
					c.S.OK(id, key, c.Pos(phi.Pos()), "assigned on every path of the loop body")
					continue
				}
				// the result under construction is changed in place (or re-assigned from itself): not an operand
				mutated := false
				seenPhi := map[ssa.Value]bool{}
				var group []ssa.Value
				var collect func(v ssa.Value)
				collect = func(v ssa.Value) {
					if seenPhi[v] {
						return
					}
					seenPhi[v] = true
					group = append(group, v)
					if p2, ok := v.(*ssa.Phi); ok {
						for _, e := range p2.Edges {
							if _, isPhi := e.(*ssa.Phi); isPhi {
								collect(e)
							}
						}
					}
				}
				collect(phi)
				for _, g := range group {
					for _, r := range referrers(g) {
						if call, ok := r.(ssa.CallInstruction); ok {
							if h := call.Common().StaticCallee(); h != nil && (mm.dictStore[h] || mm.dictRem[h]) && len(call.Common().Args) > 0 && call.Common().Args[0] == g {
								mutated = true
							}
						}
						if _, isRet := r.(*ssa.Return); isRet {
							mutated = true
						}
					}
				}
				if mutated {
					c.S.OK(id, key, c.Pos(phi.Pos()), "the set under construction")
				} else {
					c.S.Bad(id, key, c.Pos(phi.Pos()), fmt.Sprintf("%s reads, in its loop over the operand keys, a set variable that keeps the previous iteration's value on some path: an operand that is missing is treated as a repeat of the one before it", fnName(fn)))
				}
			}
		}
	}
	if n == 0 {
		c.S.Trivial(id, "none", "-", "no set variable is carried round an operand loop")
	}
}

// ---------------------------------------------------------------- R-store-dest-settled

const textStoreDestSettled = "R-store-dest-settled: a STORE form decides the fate of its destination on every path: in a store method with a key-name parameter that it both removes from the keyspace (empty result) and creates a key under (non-empty result), every path from the entry to a return passes one of the two — except paths that answer an error and paths on which the parameter was compared equal to the empty string (no STORE given). A shortcut that answers for a missing source key before that point leaves an existing destination in place: SORT nosuchkey STORE dst answers 0 and dst is still there"

func ruleStoreDestSettled(c *Ctx) {
	const id = "R-store-dest-settled"
	c.S.Rule(id, textStoreDestSettled, 1)
	mm := c.M.Muts()
	fKs := c.Field("dataStore", "data")
	gWrong := c.Global("wrongTypeError")
	fData := c.Field("respValue", "data")
	if fKs == nil || len(mm.errs) > 0 || fData == nil {
		c.S.Undecided(id, "anchors", "-", "keyspace / mutation model not available")
		return
	}
	// creates a key under its parameter: returns a new key object and stores it into the keyspace under that name
	var createsUnder func(g *ssa.Function, p *ssa.Parameter, d int) bool
	createsUnder = func(g *ssa.Function, p *ssa.Parameter, d int) bool {
		if g == nil || d > 2 || !c.InPkg(g) {
			return false
		}
		for _, in := range instrsOf(g) {
			call, ok := in.(ssa.CallInstruction)
			if !ok {
				continue
			}
			h := call.Common().StaticCallee()
			if h == nil {
				continue
			}
			args := call.Common().Args
			if mm.dictStore[h] && len(args) >= 2 && args[1] == ssa.Value(p) {
				if _, f := loadedField(args[0]); f == fKs {
					return true
				}
			}
			for i, a := range args {
				if a == ssa.Value(p) && i < len(h.Params) && createsUnder(h, h.Params[i], d+1) {
					return true
				}
			}
		}
		return false
	}
	n := 0
	for _, fn := range c.SrcFuncs() {
		if fn.Signature.Recv() == nil || !c.isPkgType(fn.Signature.Recv().Type(), "dataStoreCommand") || fn.Signature.Results().Len() == 0 {
			continue
		}
		for _, p := range fn.Params[1:] {
			bt, ok := p.Type().Underlying().(*types.Basic)
			if !ok || bt.Kind() != types.String {
				continue
			}
			isRemove := func(in ssa.Instruction) bool {
				call, ok := in.(ssa.CallInstruction)
				if !ok {
					return false
				}
				h := call.Common().StaticCallee()
				if h == nil {
					return false
				}
				args := call.Common().Args
				if mm.dictRem[h] && len(args) >= 2 && args[1] == ssa.Value(p) {
					_, f := loadedField(args[0])
					return f == fKs
				}
				if c.InPkg(h) {
					for i, a := range args {
						if a == ssa.Value(p) && i < len(h.Params) && removesKeyParam(c, h, h.Params[i], 0) {
							return true
						}
					}
				}
				return false
			}
			isCreate := func(in ssa.Instruction) bool {
				call, ok := in.(ssa.CallInstruction)
				if !ok {
					return false
				}
				h := call.Common().StaticCallee()
				if h == nil || !c.InPkg(h) {
					return false
				}
				for i, a := range call.Common().Args {
					if a == ssa.Value(p) && i < len(h.Params) && createsUnder(h, h.Params[i], 0) {
						return true
					}
				}
				return false
			}
			hasRem, hasCre := false, false
			for _, in := range instrsOf(fn) {
				if isRemove(in) {
					hasRem = true
				}
				if isCreate(in) {
					hasCre = true
				}
			}
			if !hasRem || !hasCre {
				continue
			}
			n++
			key := fmt.Sprintf("%s:%s", fnName(fn), p.Name())
			isErr := func(in ssa.Instruction) bool {
				if c.isErrorReplyStore(in) {
					return true
				}
				if st, ok := isStoreTo(in, fData); ok && gWrong != nil {
					v := st.Val
					if mi, ok := v.(*ssa.MakeInterface); ok {
						v = mi.X
					}
					if u, ok := v.(*ssa.UnOp); ok && u.X == ssa.Value(gWrong) {
						return true
					}
				}
				if st, ok := in.(*ssa.Store); ok {
					// a whole error reply copied into the result (`output.data = *err` / `output = errReply`)
					if u, ok := st.Val.(*ssa.UnOp); ok {
						if pt, ok := u.X.Type().Underlying().(*types.Pointer); ok && c.isPkgType(pt.Elem(), "respErrorString") {
							return true
						}
					}
				}
				return false
			}
			// the edge on which the parameter is the empty string
			noStoreEdge := func(b *ssa.BasicBlock, si int) bool {
				ifi, ok := b.Instrs[len(b.Instrs)-1].(*ssa.If)
				if !ok {
					return false
				}
				bo, ok := ifi.Cond.(*ssa.BinOp)
				if !ok || (bo.Op != token.EQL && bo.Op != token.NEQ) {
					return false
				}
				x, y := bo.X, bo.Y
				if x != ssa.Value(p) {
					x, y = y, x
				}
				if x != ssa.Value(p) {
					return false
				}
				if s, ok := constString(y); !ok || s != "" {
					return false
				}
				return (bo.Op == token.EQL) == (si == 0)
			}
			bad := ""
			seen := map[*ssa.BasicBlock]bool{}
			var walk func(b *ssa.BasicBlock)
			walk = func(b *ssa.BasicBlock) {
				if seen[b] {
					return
				}
				seen[b] = true
				for _, in := range b.Instrs {
					if isRemove(in) || isCreate(in) || isErr(in) {
						return
					}
					if _, ok := in.(*ssa.Panic); ok {
						return
					}
					if ret, ok := in.(*ssa.Return); ok {
						bad = c.Pos(c.InstrPos(ret))
						return
					}
				}
				for si, s := range b.Succs {
					if noStoreEdge(b, si) {
						continue
					}
					walk(s)
				}
			}
			walk(fn.Blocks[0])
			if bad != "" {
				c.S.Bad(id, key, c.Pos(fn.Pos()), fmt.Sprintf("%s can return (at %s) without having removed or created its destination %s and without an error reply: a destination that existed before stays although the command answered for an empty result", fnName(fn), bad, p.Name()))
			} else {
				c.S.OK(id, key, c.Pos(fn.Pos()), "every non-error path removes the destination or creates it")
			}
		}
	}
	if n == 0 {
		c.S.Undecided(id, "none", "-", "no store method both removes and creates a key under one of its name parameters")
	}
}

// ---------------------------------------------------------------- R-C16-new-shared-field

const textNewSharedField = "R-C16-new-shared-field: the guarded-by table lists the fields of the structures that several goroutines share as they were when the rules were confirmed; a field that has been ADDED to one of those structures (connection, session state, database, database set, emulator) since then is either written by one kind of goroutine only (command goroutines, the connection's state machine, or other goroutines), or every write outside a constructor happens with a mutex held. A preallocated event object per connection that the state machine, the command goroutine and another connection's CLIENT KILL all fill before sending it is written by three goroutines without any lock"

func ruleC16NewSharedField(c *Ctx) {
	const id = "R-C16-new-shared-field"
	c.S.Rule(id, textNewSharedField, 0)
	sch := c.schema()
	lm := c.M.Locks()
	rm := c.M.Req()
	newFields := map[*types.Var]string{}
	for _, tn := range []string{"clientCxn", "clientState", "dataStore", "dataStoreSet", "RedisEmu", "cmdDispatcher"} {
		nt := sch.typeOf[tn]
		if nt == nil {
			continue
		}
		st, ok := nt.Underlying().(*types.Struct)
		if !ok {
			continue
		}
		for i := 0; i < st.NumFields(); i++ {
			f := st.Field(i)
			if sch.canonF[f] != "" || f.Embedded() {
				continue
			}
			if _, isMutex := f.Type().Underlying().(*types.Struct); isMutex && (f.Type().String() == "sync.Mutex" || f.Type().String() == "sync.RWMutex") {
				continue
			}
			newFields[f] = tn + "." + f.Name()
		}
	}
	if len(newFields) == 0 {
		c.S.Trivial(id, "none", "-", "no field has been added to the shared structures since the guarded-by table was confirmed")
		return
	}
	// kinds of goroutine that reach a function
	kindOf := func(fn *ssa.Function) map[string]bool {
		out := map[string]bool{}
		for _, r := range rm.roots {
			if r != fn && !c.M.Reach(r)[fn] {
				continue
			}
			why := rm.rootWhy[r]
			runsCommands := false
			if dh := c.txn().dispatchHandler; dh != nil && (r == dh || c.M.Reach(r)[dh]) {
				runsCommands = true // the goroutine of a command, or a caller that executes commands on its own goroutine (test client)
			}
			switch {
			case runsCommands:
				out["command goroutine"] = true
			case len(why) >= 15 && why[:15] == "command handler":
				out["command goroutine"] = true
			case why == "goroutine entry":
				out["goroutine "+fnName(r)] = true
			default:
				out["API caller"] = true
			}
		}
		return out
	}
	var fs []*types.Var
	for f := range newFields {
		fs = append(fs, f)
	}
	for i := 1; i < len(fs); i++ {
		for j := i; j > 0 && newFields[fs[j]] < newFields[fs[j-1]]; j-- {
			fs[j], fs[j-1] = fs[j-1], fs[j]
		}
	}
	for _, f := range fs {
		kinds := map[string]bool{}
		unlocked := ""
		writes := 0
		for _, fn := range c.SrcFuncs() {
			for _, in := range instrsOf(fn) {
				var base ssa.Value
				switch x := in.(type) {
				case *ssa.Store:
					if fa, ok := x.Addr.(*ssa.FieldAddr); ok && fieldOf(fa) == f {
						base = fa.X
					}
					// a write into the field's own storage (an embedded struct's member, an element)
					if fa2, ok := x.Addr.(*ssa.FieldAddr); ok && base == nil {
						if fa, ok := fa2.X.(*ssa.FieldAddr); ok && fieldOf(fa) == f {
							base = fa.X
						}
					}
				case *ssa.MapUpdate:
					if b, ff := loadedField(x.Map); ff == f {
						base = b
					}
				}
				if base == nil || isFresh(base) || freshEverywhere(c.Prog, base, 0) {
					continue
				}
				writes++
				for k := range kindOf(enclosing(fn)) {
					kinds[k] = true
				}
				if fn != enclosing(fn) {
					for k := range kindOf(fn) {
						kinds[k] = true
					}
				}
				if lm.LocallyHeld(in) == 0 {
					// held by every caller?
					held := false
					if node := c.CG.Nodes[fn]; node != nil && len(node.In) > 0 {
						held = true
						for _, e := range node.In {
							if e.Site == nil || lm.LocallyHeld(e.Site) == 0 {
								held = false
							}
						}
					}
					if !held {
						unlocked = fmt.Sprintf("%s at %s", fnName(fn), c.Pos(c.InstrPos(in)))
					}
				}
			}
		}
		key := "field:" + newFields[f]
		switch {
		case writes == 0:
			c.S.Trivial(id, key, c.Pos(f.Pos()), "written only while its object is under construction")
		case len(kinds) <= 1:
			c.S.OK(id, key, c.Pos(f.Pos()), "written by one kind of goroutine only")
		case unlocked == "":
			c.S.OK(id, key, c.Pos(f.Pos()), "every write happens with a mutex held")
		default:
			var ks []string
			for k := range kinds {
				ks = append(ks, k)
			}
			sortStrings(ks)
			c.S.Bad(id, key, c.Pos(f.Pos()), fmt.Sprintf("the added field %s is written without a lock (%s) and its writers run on several kinds of goroutine (%v): a data race", newFields[f], unlocked, ks))
		}
	}
}

// lengthStoresGuarded: length and valid are named results kept in cells (a deferred closure reads or writes them): every
// store of something other than 0 into the length cell — in the function or in a closure that captures the cell — sits
// behind the true side of a test of the valid cell
func lengthStoresGuarded(fn *ssa.Function, length, valid ssa.Value) bool {
	cellOf := func(v ssa.Value) *ssa.Alloc {
		if u, ok := v.(*ssa.UnOp); ok && u.Op == token.MUL {
			if al, ok := u.X.(*ssa.Alloc); ok {
				return al
			}
		}
		return nil
	}
	lc, vc := cellOf(length), cellOf(valid)
	if lc == nil || vc == nil {
		return false
	}
	// the cell as seen in a function: the Alloc itself, or the free variable bound to it
	view := func(f *ssa.Function, cell *ssa.Alloc) ssa.Value {
		if f == fn {
			return cell
		}
		for _, in := range instrsOf(fn) {
			if mc, ok := in.(*ssa.MakeClosure); ok && mc.Fn == ssa.Value(f) {
				for i, b := range mc.Bindings {
					if b == ssa.Value(cell) && i < len(f.FreeVars) {
						return f.FreeVars[i]
					}
				}
			}
		}
		return nil
	}
	fns := []*ssa.Function{fn}
	fns = append(fns, fn.AnonFuncs...)
	n := 0
	for _, f := range fns {
		lv, vv := view(f, lc), view(f, vc)
		if lv == nil {
			continue
		}
		for _, in := range instrsOf(f) {
			st, ok := in.(*ssa.Store)
			if !ok || st.Addr != lv {
				continue
			}
			if k, isC := constInt(st.Val); isC && k == 0 {
				continue
			}
			n++
			if vv == nil {
				return false
			}
			guarded := false
			for d := st.Block(); d != nil && !guarded; d = d.Idom() {
				p := d.Idom()
				if p == nil {
					break
				}
				ifi, ok := p.Instrs[len(p.Instrs)-1].(*ssa.If)
				if !ok {
					continue
				}
				cond, neg := ifi.Cond, false
				for {
					u, ok := cond.(*ssa.UnOp)
					if !ok || u.Op != token.NOT {
						break
					}
					cond, neg = u.X, !neg
				}
				u, ok := cond.(*ssa.UnOp)
				if !ok || u.Op != token.MUL || u.X != vv {
					continue
				}
				side := 0
				if neg {
					side = 1
				}
				sc := p.Succs[side]
				if len(sc.Preds) == 1 && (sc == d || sc.Dominates(st.Block())) {
					guarded = true
				}
			}
			if !guarded {
				return false
			}
		}
	}
	return n > 0
}

// ---------------------------------------------------------------- R-C20-add-then-go

const textAddThenGo = "R-C20-add-then-go: every count added to the termination WaitGroup is taken by a goroutine that is started right there: on every path from a `wg.Add(1)` to the end of its function a `go` statement follows before anything else adds to the group or the function returns. An Add left in front of a helper that itself adds and starts the goroutine counts one goroutine twice: WaitForTermination and Close wait for ever"

func ruleC20AddThenGo(c *Ctx) {
	const id = "R-C20-add-then-go"
	c.S.Rule(id, textAddThenGo, 1)
	n := 0
	for _, fn := range c.SrcFuncs() {
		k := 0
		for _, in := range instrsOf(fn) {
			call, ok := in.(*ssa.Call)
			if !ok || fullCalleeName(call) != "(*sync.WaitGroup).Add" {
				continue
			}
			k++
			n++
			key := fmt.Sprintf("%s:add#%d", fnName(fn), k)
			bad := ""
			seen := map[*ssa.BasicBlock]bool{}
			var walk func(b *ssa.BasicBlock, start int)
			walk = func(b *ssa.BasicBlock, start int) {
				for _, in2 := range b.Instrs[start:] {
					switch x := in2.(type) {
					case *ssa.Go:
						return
					case *ssa.Return:
						bad = "the function returns at " + c.Pos(c.InstrPos(x))
						return
					case *ssa.Call:
						if g := x.Call.StaticCallee(); g != nil && c.InPkg(g) {
							for f := range c.M.Reach(g) {
								for _, in3 := range instrsOf(f) {
									if c3, ok := in3.(*ssa.Call); ok && fullCalleeName(c3) == "(*sync.WaitGroup).Add" {
										bad = fmt.Sprintf("%s, which adds to the group itself, is called at %s", fnName(g), c.Pos(x.Pos()))
										return
									}
								}
							}
						}
						if fullCalleeName(x) == "(*sync.WaitGroup).Add" {
							bad = "the group is added to again at " + c.Pos(x.Pos())
							return
						}
					}
				}
				for _, s := range b.Succs {
					if !seen[s] {
						seen[s] = true
						walk(s, 0)
					}
				}
			}
			walk(call.Block(), instrIndex(call)+1)
			if bad != "" {
				c.S.Bad(id, key, c.Pos(call.Pos()), fmt.Sprintf("%s adds to the WaitGroup and no goroutine is started for that count before %s: the group never gets back to zero", fnName(fn), bad))
			} else {
				c.S.OK(id, key, c.Pos(call.Pos()), "a goroutine is started for the count on every path")
			}
		}
	}
	if n == 0 {
		c.S.Undecided(id, "none", "-", "no WaitGroup.Add in the package")
	}
}

// ---------------------------------------------------------------- R-C19-discover-needs-path

const textDiscoverNeedsPath = "R-C19-discover-needs-path: an emulator that was given no persist path touches no file: at start-up the directory walk (and every call that reaches the snapshot loader from outside the command handlers) is dominated by the test that the persist path itself — the parameter or field, not a value derived from it with a default — is not the empty string. With the directory defaulted to \".\" before the test, an emulator without a path loads whatever `.db<n>` files lie below the working directory, for instance the snapshots of another emulator whose path is a directory"

func ruleC19DiscoverNeedsPath(c *Ctx) {
	const id = "R-C19-discover-needs-path"
	c.S.Rule(id, textDiscoverNeedsPath, 1)
	pa := c.persist()
	hs, err := c.M.Handlers()
	if len(pa.errs) > 0 || err != nil {
		c.S.Undecided(id, "anchors", "-", "loader / handlers not found")
		return
	}
	reach := map[*ssa.Function]bool{}
	for _, h := range hs {
		for f := range c.M.Reach(h) {
			reach[f] = true
		}
	}
	n := 0
	for _, fn := range c.SrcFuncs() {
		if reach[enclosing(fn)] || fn.Parent() != nil {
			continue
		}
		k := 0
		for _, in := range instrsOf(fn) {
			call, ok := in.(*ssa.Call)
			if !ok {
				continue
			}
			walks := fullCalleeName(call) == "path/filepath.WalkDir" || fullCalleeName(call) == "path/filepath.Walk" || fullCalleeName(call) == "os.ReadDir"
			if !walks {
				continue
			}
			// does the walk lead to the loader (through its callback)?
			leads := false
			for _, a := range call.Call.Args {
				var g *ssa.Function
				if ct, ok := a.(*ssa.ChangeType); ok {
					a = ct.X // the callback converted to the library's named function type
				}
				switch x := a.(type) {
				case *ssa.MakeClosure:
					g, _ = x.Fn.(*ssa.Function)
				case *ssa.Function:
					g = x
				}
				if g != nil && (g == pa.loader || c.M.Reach(g)[pa.loader]) {
					leads = true
				}
				// a bound method value
				if g != nil && !leads {
					for _, in2 := range instrsOf(g) {
						if c2, ok := in2.(ssa.CallInstruction); ok {
							if h := c2.Common().StaticCallee(); h != nil && c.InPkg(h) && (h == pa.loader || c.M.Reach(h)[pa.loader]) {
								leads = true
							}
						}
					}
				}
			}
			if !leads {
				continue
			}
			k++
			n++
			key := fmt.Sprintf("%s:walk#%d", fnName(fn), k)
			var guardedAt func(f *ssa.Function, blk *ssa.BasicBlock, depth int) bool
			guardedAt = func(f *ssa.Function, blk *ssa.BasicBlock, depth int) bool {
				for d := blk; d != nil; d = d.Idom() {
					p := d.Idom()
					if p == nil {
						break
					}
					ifi, ok := p.Instrs[len(p.Instrs)-1].(*ssa.If)
					if !ok {
						continue
					}
					bo, ok := ifi.Cond.(*ssa.BinOp)
					if !ok || (bo.Op != token.NEQ && bo.Op != token.EQL) {
						continue
					}
					x, y := bo.X, bo.Y
					if s, ok := constString(x); ok && s == "" {
						x, y = y, x
					}
					if s, ok := constString(y); !ok || s != "" {
						continue
					}
					// the path itself: a parameter or a field, possibly through a local cell
					x = resolveLocal(x)
					_, isParam := x.(*ssa.Parameter)
					_, fld := loadedField(x)
					if !isParam && fld == nil {
						continue
					}
					side := 0
					if bo.Op == token.EQL {
						side = 1
					}
					sc := p.Succs[side]
					if len(sc.Preds) == 1 && (sc == d || sc.Dominates(blk)) {
						return true
					}
				}
				// a loading helper: guarded at each of its call sites
				node := c.CG.Nodes[f]
				if depth >= 2 || node == nil || len(node.In) == 0 {
					return false
				}
				for _, e := range node.In {
					if e.Site == nil || e.Caller.Func == nil || !guardedAt(e.Caller.Func, e.Site.Block(), depth+1) {
						return false
					}
				}
				return true
			}
			guarded := guardedAt(fn, call.Block(), 0)
			if guarded {
				c.S.OK(id, key, c.Pos(call.Pos()), "behind the test that the persist path is not empty")
			} else {
				c.S.Bad(id, key, c.Pos(call.Pos()), fmt.Sprintf("%s walks a directory for snapshot files although no test of the persist path itself against \"\" dominates the walk: an emulator without a persist path loads files it finds", fnName(fn)))
			}
		}
	}
	if n == 0 {
		c.S.Undecided(id, "none", "-", "no directory walk that leads to the snapshot loader")
	}
}

// ---------------------------------------------------------------- R-token-id-from-add

const textTokenIdFromAdd = "R-token-id-from-add: command ids are unique because each is the RESULT of the atomic increment of the database's command counter: the id stored into a new command object derives (through masks) from the value an atomic Add returns, not from a separate atomic Load after it. Add-then-Load hands two commands that are prepared at the same moment the same id; the twin of an EXEC passes the owner test of the re-entrant lock and runs inside the transaction without the mutex"

func ruleTokenIdFromAdd(c *Ctx) {
	const id = "R-token-id-from-add"
	c.S.Rule(id, textTokenIdFromAdd, 1)
	fID := c.Field("dataStoreCommand", "id")
	if fID == nil {
		c.S.Undecided(id, "anchors", "-", "dataStoreCommand.id not found")
		return
	}
	var fromAdd func(v ssa.Value, d int) (bool, string)
	fromAdd = func(v ssa.Value, d int) (bool, string) {
		if d > 6 {
			return false, "too deep"
		}
		switch x := v.(type) {
		case *ssa.BinOp:
			if _, isC := constInt(x.Y); isC {
				return fromAdd(x.X, d+1)
			}
			if _, isC := constInt(x.X); isC {
				return fromAdd(x.Y, d+1)
			}
		case *ssa.Convert:
			return fromAdd(x.X, d+1)
		case *ssa.Call:
			nm := fullCalleeName(x)
			if len(nm) > 15 && nm[:15] == "sync/atomic.Add" {
				return true, ""
			}
			if len(nm) > 16 && nm[:16] == "sync/atomic.Load" {
				return false, "a separate atomic load"
			}
			if g := x.Call.StaticCallee(); g != nil && c.InPkg(g) {
				ok, why := true, ""
				n := 0
				for _, b := range g.Blocks {
					if ret, isRet := b.Instrs[len(b.Instrs)-1].(*ssa.Return); isRet && len(ret.Results) == 1 {
						n++
						if o, w := fromAdd(ret.Results[0], d+1); !o {
							ok, why = false, w
						}
					}
				}
				return ok && n > 0, why
			}
		case *ssa.UnOp:
			if al, ok := x.X.(*ssa.Alloc); ok && x.Op == token.MUL {
				for _, r := range referrers(al) {
					if st, ok := r.(*ssa.Store); ok && st.Addr == ssa.Value(al) {
						return fromAdd(st.Val, d+1)
					}
				}
			}
			if _, f := loadedField(x); f != nil {
				return false, "a plain read of " + f.Name()
			}
		}
		return false, "not the result of an atomic add"
	}
	n := 0
	for _, fn := range c.SrcFuncs() {
		k := 0
		for _, in := range instrsOf(fn) {
			st, ok := isStoreTo(in, fID)
			if !ok {
				continue
			}
			k++
			n++
			key := fmt.Sprintf("%s:id#%d", fnName(fn), k)
			if p, isP := st.Val.(*ssa.Parameter); isP {
				c.S.Trivial(id, key, c.Pos(st.Pos()), "the id is parameter "+p.Name()+": a copy of an existing command's id (EXEC rewrites the ids of the commands it replays)")
				continue
			}
			if _, f := loadedField(st.Val); f == fID {
				if fa, ok := st.Addr.(*ssa.FieldAddr); ok && isFresh(fa.X) {
					c.S.Bad(id, key, c.Pos(st.Pos()), fmt.Sprintf("%s makes a new command object with the id of another one: ids are drawn per database, so in the other database the same number can belong to the EXEC that holds its lock — the new object passes the owner test without the mutex", fnName(fn)))
					continue
				}
				c.S.Trivial(id, key, c.Pos(st.Pos()), "copied into an existing command object (the replay runs under the id of the EXEC that holds the lock)")
				continue
			}
			if ok, why := fromAdd(st.Val, 0); ok {
				c.S.OK(id, key, c.Pos(st.Pos()), "the id is the value the atomic increment returned")
			} else {
				c.S.Bad(id, key, c.Pos(st.Pos()), fmt.Sprintf("%s takes a command's id from %s: two commands created at the same moment can get the same id, and the owner test of the database lock lets the second one in without the mutex", fnName(fn), why))
			}
		}
	}
	if n == 0 {
		c.S.Undecided(id, "none", "-", "no store to dataStoreCommand.id")
	}
}

// ---------------------------------------------------------------- R-C14-create-in-lookup-section

const textCreateInSection = "R-C14-create-in-lookup-section: a database is filed in the table in the critical section that found it missing: walking back from every insertion into the database table (in a set that is already shared), the lookup of the table is met before any Unlock of the table's mutex — in the function itself or, for a helper that is called with the mutex held, at each of its call sites. Looking up in one section and filing a new database in a second one lets two connections that select the same new index each get a database of their own: same index, different keys, different mutex"

func ruleC14CreateInLookupSection(c *Ctx) {
	const id = "R-C14-create-in-lookup-section"
	c.S.Rule(id, textCreateInSection, 1)
	fDbs := c.Field("dataStoreSet", "dbs")
	fMu := c.Field("dataStoreSet", "mu")
	if fDbs == nil || fMu == nil {
		c.S.Undecided(id, "anchors", "-", "dataStoreSet.dbs / mu not found")
		return
	}
	isLookup := func(in ssa.Instruction) bool {
		lk, ok := in.(*ssa.Lookup)
		if !ok {
			return false
		}
		_, f := loadedField(lk.X)
		return f == fDbs
	}
	isUnlock := func(in ssa.Instruction) bool {
		call, ok := in.(ssa.CallInstruction)
		if !ok {
			return false
		}
		if _, isDefer := in.(*ssa.Defer); isDefer {
			return false
		}
		nm := fullCalleeName(call)
		if nm != "(*sync.Mutex).Unlock" && nm != "(*sync.RWMutex).Unlock" {
			return false
		}
		if fa, ok := call.Common().Args[0].(*ssa.FieldAddr); ok {
			return fieldOf(fa) == fMu
		}
		return false
	}
	// back: from instruction index idx of block b, is a lookup met before an unlock on every way back? entry → ask callers
	var judge func(fn *ssa.Function, b *ssa.BasicBlock, idx int, depth int) string
	judge = func(fn *ssa.Function, b *ssa.BasicBlock, idx int, depth int) string {
		seen := map[*ssa.BasicBlock]bool{}
		bad := ""
		var back func(b *ssa.BasicBlock, end int)
		back = func(b *ssa.BasicBlock, end int) {
			for i := end - 1; i >= 0; i-- {
				if isLookup(b.Instrs[i]) {
					return
				}
				if isUnlock(b.Instrs[i]) {
					bad = fmt.Sprintf("the table mutex is released at %s between the lookup and the insertion", c.Pos(c.InstrPos(b.Instrs[i])))
					return
				}
			}
			if len(b.Preds) == 0 {
				// function entry: every caller
				node := c.CG.Nodes[fn]
				if depth >= 2 || node == nil || len(node.In) == 0 {
					bad = "no lookup of the table precedes the insertion"
					return
				}
				for _, e := range node.In {
					if e.Site == nil || e.Caller.Func == nil {
						continue
					}
					if args := e.Site.Common().Args; len(args) > 0 && (isFresh(args[0]) || freshEverywhere(c.Prog, args[0], 0)) {
						continue // a set under construction
					}
					if w := judge(e.Caller.Func, e.Site.Block(), instrIndex(e.Site), depth+1); w != "" {
						bad = w
					}
				}
				return
			}
			for _, p := range b.Preds {
				if !seen[p] {
					seen[p] = true
					back(p, len(p.Instrs))
				}
			}
		}
		back(b, idx)
		return bad
	}
	n := 0
	for _, fn := range c.SrcFuncs() {
		k := 0
		for _, in := range instrsOf(fn) {
			mu, ok := in.(*ssa.MapUpdate)
			if !ok {
				continue
			}
			base, f := loadedField(mu.Map)
			if f != fDbs || isFresh(base) {
				continue
			}
			k++
			n++
			key := fmt.Sprintf("%s:insert#%d", fnName(fn), k)
			if w := judge(fn, mu.Block(), instrIndex(mu), 0); w != "" {
				c.S.Bad(id, key, c.Pos(mu.Pos()), fmt.Sprintf("%s files a database in the table, but %s: two connections selecting the same new index at the same moment each create one, and the first keeps working on a database nobody else sees", fnName(fn), w))
			} else {
				c.S.OK(id, key, c.Pos(mu.Pos()), "lookup and insertion in one critical section of the table mutex")
			}
		}
	}
	if n == 0 {
		c.S.Undecided(id, "none", "-", "no insertion into the database table")
	}
}

// ---------------------------------------------------------------- R-C11-one-wake-per-client

const textOneWakePerClient = "R-C11-one-wake-per-client: a push of n elements wakes up to n clients: in the function that sends on the wake channel of waiting clients in a loop bounded by the number of elements, the loop counter advances by the constant 1 for every client woken. Counting the queue entries a client leaves instead (a client blocked on k keys leaves k) lets one multi-key waiter use up the wake-ups of the clients behind it, which stay blocked on a non-empty list"

func ruleC11OneWakePerClient(c *Ctx) {
	const id = "R-C11-one-wake-per-client"
	c.S.Rule(id, textOneWakePerClient, 1)
	n := 0
	for _, fn := range c.SrcFuncs() {
		if fn.Signature.Recv() == nil || !c.isPkgType(fn.Signature.Recv().Type(), "waitTable") {
			continue
		}
		// sends on a channel inside a loop
		for _, in := range instrsOf(fn) {
			snd, ok := in.(*ssa.Send)
			if !ok || !blockInCycle(snd.Block()) {
				continue
			}
			// the loop's bound: a comparison of a merge with an integer parameter
			for _, b := range fn.Blocks {
				ifi, ok := b.Instrs[len(b.Instrs)-1].(*ssa.If)
				if !ok || !blockInCycle(b) {
					continue
				}
				bo, ok := ifi.Cond.(*ssa.BinOp)
				if !ok || (bo.Op != token.LSS && bo.Op != token.GTR) {
					continue
				}
				phi, isPhi := bo.X.(*ssa.Phi)
				if !isPhi || len(phi.Edges) != 2 {
					continue
				}
				// counting up to the parameter, or counting the parameter down to 0
				step := int64(1)
				if bo.Op == token.LSS {
					if _, isParam := bo.Y.(*ssa.Parameter); !isParam {
						continue
					}
				} else {
					if z, isC := constInt(bo.Y); !isC || z != 0 {
						continue
					}
					fromParam := false
					for _, e := range phi.Edges {
						if _, isParam := e.(*ssa.Parameter); isParam {
							fromParam = true
						}
					}
					if !fromParam {
						continue
					}
					step = -1
				}
				n++
				key := fnName(fn) + ":wake-loop"
				good := false
				for _, e := range phi.Edges {
					t := normLin(e)
					if t.base == ssa.Value(phi) && t.k == step {
						good = true
					}
				}
				if good {
					c.S.OK(id, key, c.Pos(ifi.Cond.Pos()), "one wake-up per client, counted by 1")
				} else {
					c.S.Bad(id, key, c.Pos(ifi.Cond.Pos()), fmt.Sprintf("%s advances its wake counter by something other than 1 per client woken: fewer clients than pushed elements are woken", fnName(fn)))
				}
			}
		}
	}
	if n == 0 {
		c.S.Undecided(id, "none", "-", "no counted wake loop in the wait table")
	}
}

// ---------------------------------------------------------------- R-defer-not-in-loop

const textDeferNotInLoop = "R-defer-not-in-loop: a deferred call runs when its FUNCTION returns, not at the end of a loop iteration: in code reachable from the command handlers no `defer` statement sits inside a loop. The blocking worker's wait step releases its capture of the connection and stops its timer with defers inside a closure called once per attempt; inlining that closure into the retry loop keeps the capture for the whole command, and the second attempt spins on a capture that is never released"

func ruleDeferNotInLoop(c *Ctx) {
	const id = "R-defer-not-in-loop"
	c.S.Rule(id, textDeferNotInLoop, 0)
	hs, err := c.M.Handlers()
	if err != nil {
		c.S.Undecided(id, "anchors", "-", "handlers not found")
		return
	}
	reach := map[*ssa.Function]bool{}
	for _, h := range hs {
		for f := range c.M.Reach(h) {
			reach[f] = true
		}
	}
	n, bad := 0, 0
	for _, fn := range c.SrcFuncs() {
		if !reach[enclosing(fn)] {
			continue
		}
		k := 0
		for _, in := range instrsOf(fn) {
			d, ok := in.(*ssa.Defer)
			if !ok {
				continue
			}
			n++
			if blockInCycle(d.Block()) {
				k++
				bad++
				c.S.Bad(id, fmt.Sprintf("%s:defer-in-loop#%d", fnName(fn), k), c.Pos(d.Pos()), fmt.Sprintf("%s defers a call inside a loop: the release it performs happens when the function returns, not per iteration, so what the next iteration needs is still held", fnName(fn)))
			}
		}
	}
	if bad == 0 {
		c.S.OK(id, "all", "-", fmt.Sprintf("%d defer statement(s) in handler-reachable code, none inside a loop", n))
	}
}

// ---------------------------------------------------------------- R-param-slice-not-reordered

const textParamSliceNotReordered = "R-param-slice-not-reordered: a function does not reorder or compact a slice it was handed: no sort (sort.Strings, sort.Slice, slices.Sort…) or slices.Compact is applied to a slice parameter in code reachable from the command handlers — the caller goes on using the same backing array in its own order. The wait-table registration that sorts the caller's key list in place makes the blocked client's retry scan its keys in sorted order: BLPOP y b is served from b although y was asked first"

func ruleParamSliceNotReordered(c *Ctx) {
	const id = "R-param-slice-not-reordered"
	c.S.Rule(id, textParamSliceNotReordered, 0)
	hs, err := c.M.Handlers()
	if err != nil {
		c.S.Undecided(id, "anchors", "-", "handlers not found")
		return
	}
	reach := map[*ssa.Function]bool{}
	for _, h := range hs {
		for f := range c.M.Reach(h) {
			reach[f] = true
		}
	}
	// blocking workers register through the database: include what the handlers' closures reach
	reorders := map[string]bool{"sort.Strings": true, "sort.Ints": true, "sort.Slice": true, "sort.SliceStable": true, "sort.Sort": true, "sort.Stable": true,
		"slices.Sort": true, "slices.SortFunc": true, "slices.SortStableFunc": true, "slices.Compact": true, "slices.CompactFunc": true, "slices.Reverse": true}
	n, bad := 0, 0
	for _, fn := range c.SrcFuncs() {
		if !reach[enclosing(fn)] {
			continue
		}
		k := 0
		for _, in := range instrsOf(fn) {
			call, ok := in.(ssa.CallInstruction)
			if !ok {
				continue
			}
			g := call.Common().StaticCallee()
			if g == nil {
				continue
			}
			nm := g.String()
			if g.Origin() != nil {
				nm = g.Origin().String()
			}
			if !reorders[nm] || len(call.Common().Args) == 0 {
				continue
			}
			n++
			a := call.Common().Args[0]
			if mi, ok := a.(*ssa.MakeInterface); ok {
				a = mi.X
			}
			if ct, ok := a.(*ssa.ChangeType); ok {
				a = ct.X
			}
			if p, isParam := a.(*ssa.Parameter); isParam {
				k++
				bad++
				c.S.Bad(id, fmt.Sprintf("%s:%s#%d", fnName(fn), nm, k), c.Pos(call.Pos()), fmt.Sprintf("%s reorders (%s) the slice its caller handed it as %s: the caller's own view of that slice changes under it", fnName(fn), nm, p.Name()))
			}
		}
	}
	if bad == 0 {
		c.S.OK(id, "all", "-", fmt.Sprintf("%d sorting/compacting call(s) in handler-reachable code, none on a slice parameter", n))
	}
}

// ---------------------------------------------------------------- R-C16-foreign-db-own-lock

const textForeignDbOwnLock = "R-C16-foreign-db-own-lock: the lock analysis works with lock classes, not lock instances; this rule decides the one instance question that the code base raises: a command that changes ANOTHER database than its own (FLUSHALL, a cross-database copy) does so through a command object of that database (whose lock() takes that database's mutex). A call of a mutating method of the database type whose receiver is neither the `ds` of a command object, nor the function's own receiver or parameter, nor a database for which the function makes a command object, runs under the caller's own database lock — the wrong mutex"

func ruleC16ForeignDbOwnLock(c *Ctx) {
	const id = "R-C16-foreign-db-own-lock"
	c.S.Rule(id, textForeignDbOwnLock, 0)
	mm := c.M.Muts()
	fDs := c.Field("dataStoreCommand", "ds")
	if len(mm.errs) > 0 || fDs == nil {
		c.S.Undecided(id, "anchors", "-", "mutation model / dataStoreCommand.ds not available")
		return
	}
	mutates := map[*ssa.Function]bool{}
	isMutating := func(g *ssa.Function) bool {
		if v, ok := mutates[g]; ok {
			return v
		}
		r := false
		for f := range c.M.Reach(g) {
			if len(mm.sites[f]) > 0 {
				r = true
			}
		}
		mutates[g] = r
		return r
	}
	n, bad := 0, 0
	for _, fn := range c.SrcFuncs() {
		k := 0
		for _, in := range instrsOf(fn) {
			call, ok := in.(ssa.CallInstruction)
			if !ok {
				continue
			}
			g := call.Common().StaticCallee()
			if g == nil || !c.InPkg(g) || g.Signature.Recv() == nil || !c.isPkgType(g.Signature.Recv().Type(), "dataStore") || len(call.Common().Args) == 0 || !isMutating(g) {
				continue
			}
			n++
			recv := call.Common().Args[0]
			if _, f := loadedField(recv); f == fDs {
				continue // the command object's own database
			}
			root := resolveLocal(recv)
			if _, isParam := root.(*ssa.Parameter); isParam {
				continue // the caller's: judged there
			}
			if _, isFV := root.(*ssa.FreeVar); isFV {
				continue
			}
			if isFresh(recv) || freshEverywhere(c.Prog, recv, 0) {
				continue // a database under construction
			}
			// a command object is made for that database in this function
			own := false
			for _, in2 := range instrsOf(fn) {
				if c2, ok := in2.(*ssa.Call); ok {
					if h := c2.Call.StaticCallee(); h != nil && h.Signature.Results().Len() == 1 && c.isPkgType(h.Signature.Results().At(0).Type(), "dataStoreCommand") && len(c2.Call.Args) > 0 {
						if c2.Call.Args[0] == recv || sameValue(c2.Call.Args[0], recv) {
							own = true
						}
					}
				}
			}
			if own {
				continue
			}
			k++
			bad++
			c.S.Bad(id, fmt.Sprintf("%s:%s#%d", fnName(fn), fnName(g), k), c.Pos(call.Pos()), fmt.Sprintf("%s changes a database that is not its command object's own through %s without making a command object (and so taking the mutex) of that database: connections working in that database race with it", fnName(fn), fnName(g)))
		}
	}
	if bad == 0 {
		c.S.OK(id, "all", "-", fmt.Sprintf("%d call(s) of mutating database methods, each on the command object's own database, the caller's, or one a command object is made for", n))
	}
}
