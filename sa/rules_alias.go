package main

// R-payload-own — a key's payload object belongs to that key alone.

import (
	"fmt"
	"go/token"
	"go/types"

	"golang.org/x/tools/go/ssa"
)

const textPayloadOwn = "R-payload-own: every value stored into storeKey.payload is an object created by the storing command (a new dictionary/list/byte slice, a clone, the result of a function all of whose returns are such objects) or derives from the same key's previous payload (in-place growth); it is never the payload object of another key — two keys sharing one dictionary or list change together (SUNIONSTORE dst src; SADD dst x would add x to src)"

type ownCtx struct {
	seen map[ssa.Value]bool
	c    *Ctx
	memo map[string]int // fn#idx -> 0 unknown(in progress) 1 fresh 2 not
	fPay *types.Var
}

// ownedValue: v is a newly created object (or nil), or derives from the payload of sk itself.
func (o *ownCtx) ownedValue(v ssa.Value, sk ssa.Value, depth int, why *string) bool {
	if depth > 12 {
		*why = "value flow too deep to follow"
		return false
	}
	switch x := v.(type) {
	case *ssa.Const:
		return true
	case *ssa.Alloc, *ssa.MakeSlice, *ssa.MakeMap, *ssa.MakeChan:
		return true
	case *ssa.MakeInterface:
		return o.ownedValue(x.X, sk, depth+1, why)
	case *ssa.ChangeType:
		return o.ownedValue(x.X, sk, depth+1, why)
	case *ssa.ChangeInterface:
		return o.ownedValue(x.X, sk, depth+1, why)
	case *ssa.Convert:
		// string <-> []byte conversions allocate; numeric ones carry no reference
		return true
	case *ssa.TypeAssert:
		return o.ownedValue(x.X, sk, depth+1, why)
	case *ssa.Slice:
		return o.ownedValue(x.X, sk, depth+1, why)
	case *ssa.BinOp:
		return true // string concatenation etc.: a new value
	case *ssa.Phi:
		if o.seen[x] {
			return true
		}
		o.seen[x] = true
		for _, e := range x.Edges {
			if !o.ownedValue(e, sk, depth, why) {
				return false
			}
		}
		return true
	case *ssa.Extract:
		if call, ok := x.Tuple.(*ssa.Call); ok {
			return o.ownedCall(call, x.Index, sk, depth, why)
		}
	case *ssa.Call:
		return o.ownedCall(x, 0, sk, depth, why)
	case *ssa.UnOp:
		if x.Op != token.MUL {
			return true
		}
		switch a := x.X.(type) {
		case *ssa.Alloc:
			// local variable cell
			n := 0
			for _, r := range referrers(a) {
				if st, ok := r.(*ssa.Store); ok && st.Addr == ssa.Value(a) {
					n++
					if !o.ownedValue(st.Val, sk, depth+1, why) {
						return false
					}
				}
			}
			return n > 0
		case *ssa.FieldAddr:
			if fieldOf(a) == o.fPay {
				if sk != nil && (sameBase(a.X, sk) || sameKeyName(a.X, sk)) {
					return true // the same key's previous payload
				}
				*why = "it is the payload object of another key (" + a.X.Name() + ")"
				return false
			}
			// a field of a fresh object
			if isFreshDeep(a.X, 0) {
				return true
			}
		case *ssa.IndexAddr:
			if isFreshDeep(a.X, 0) {
				return true
			}
		}
	case *ssa.FreeVar:
		if isFresh(x) {
			return true
		}
	case *ssa.Parameter:
		// judged at the call sites of the function (one level)
		fn := x.Parent()
		idx := -1
		for i, p := range fn.Params {
			if p == x {
				idx = i
			}
		}
		node := o.c.CG.Nodes[fn]
		if node == nil || len(node.In) == 0 || idx < 0 {
			*why = "it is parameter " + x.Name() + " of a function without visible callers"
			return false
		}
		for _, e := range node.In {
			args := e.Site.Common().Args
			if e.Site.Common().IsInvoke() || idx >= len(args) {
				*why = "parameter " + x.Name() + " through a dynamic call"
				return false
			}
			if !o.ownedValue(args[idx], nil, depth+3, why) {
				return false
			}
		}
		return true
	}
	if *why == "" {
		*why = fmt.Sprintf("its origin (%T %s) is not a newly created object", v, v.Name())
	}
	return false
}

// sameKeyName: both storeKey values were obtained from store-layer calls for the same key-name value (the old and
// the new object of one key: the old one is dropped when the new one is installed).
func sameKeyName(a, b ssa.Value) bool {
	ka, kb := keyNameArg(a), keyNameArg(b)
	return ka != nil && ka == kb
}

func keyNameArg(v ssa.Value) ssa.Value {
	for i := 0; i < 4; i++ {
		switch x := v.(type) {
		case *ssa.Extract:
			v = x.Tuple
			continue
		case *ssa.Phi:
			var r ssa.Value
			for _, e := range x.Edges {
				if k := keyNameArg(e); k != nil {
					if r != nil && r != k {
						return nil
					}
					r = k
				} else if !isNilConst(e) {
					return nil
				}
			}
			return r
		case *ssa.Call:
			if x.Call.StaticCallee() == nil {
				return nil
			}
			for _, a := range x.Call.Args {
				if b, ok := a.Type().Underlying().(*types.Basic); ok && b.Kind() == types.String {
					return a
				}
			}
			return nil
		}
		break
	}
	return nil
}

func (o *ownCtx) ownedCall(call *ssa.Call, idx int, sk ssa.Value, depth int, why *string) bool {
	if b, ok := call.Call.Value.(*ssa.Builtin); ok {
		switch b.Name() {
		case "append":
			// may return the first argument's array
			return o.ownedValue(call.Call.Args[0], sk, depth+1, why)
		}
		return true
	}
	g := call.Call.StaticCallee()
	if g == nil {
		*why = "it is the result of a dynamic call"
		// closures passed as `op`: all possible callees
		cs := o.c.Callees(call)
		if len(cs) == 0 {
			return false
		}
		for _, h := range cs {
			if !o.returnsOwned(h, idx, depth, why) {
				return false
			}
		}
		*why = ""
		return true
	}
	if !o.c.InPkg(g) {
		return true // library results (strconv, fmt, bytes...) are new values
	}
	// typed accessor of the receiver's payload: the result is the payload of the key object passed as receiver
	if len(g.Params) > 0 && len(call.Call.Args) > 0 && o.payloadAccessor(g, idx) {
		recv := call.Call.Args[0]
		if sk != nil && (sameBase(recv, sk) || sameKeyName(recv, sk)) {
			return true
		}
		*why = "it is the payload object of another key (through " + fnName(g) + ")"
		return false
	}
	return o.returnsOwned(g, idx, depth, why)
}

// payloadAccessor: every return value #idx of g is nil or the payload of g's receiver.
func (o *ownCtx) payloadAccessor(g *ssa.Function, idx int) bool {
	if len(g.Blocks) == 0 {
		return false
	}
	var isPay func(v ssa.Value, d int) (pay bool, ok bool)
	isPay = func(v ssa.Value, d int) (bool, bool) {
		if d > 6 {
			return false, false
		}
		switch x := v.(type) {
		case *ssa.Const:
			return false, true
		case *ssa.TypeAssert:
			return isPay(x.X, d+1)
		case *ssa.Extract:
			return isPay(x.Tuple, d+1)
		case *ssa.Phi:
			any := false
			for _, e := range x.Edges {
				p, ok := isPay(e, d+1)
				if !ok {
					return false, false
				}
				any = any || p
			}
			return any, true
		case *ssa.UnOp:
			if fa, ok := x.X.(*ssa.FieldAddr); ok && fieldOf(fa) == o.fPay && fa.X == ssa.Value(g.Params[0]) {
				return true, true
			}
		}
		return false, false
	}
	found := false
	for _, b := range g.Blocks {
		ret, ok := b.Instrs[len(b.Instrs)-1].(*ssa.Return)
		if !ok || idx >= len(ret.Results) {
			continue
		}
		p, ok := isPay(ret.Results[idx], 0)
		if !ok {
			return false
		}
		found = found || p
	}
	return found
}

func (o *ownCtx) returnsOwned(g *ssa.Function, idx int, depth int, why *string) bool {
	k := fmt.Sprintf("%s#%d", fnName(g), idx)
	switch o.memo[k] {
	case 1:
		return true
	case 2:
		*why = "result of " + fnName(g) + " which can return an existing object"
		return false
	case 3:
		return true // recursion: assume
	}
	o.memo[k] = 3
	if len(g.Blocks) == 0 {
		o.memo[k] = 2
		*why = "result of " + fnName(g) + " (no body)"
		return false
	}
	for _, b := range g.Blocks {
		ret, ok := b.Instrs[len(b.Instrs)-1].(*ssa.Return)
		if !ok || idx >= len(ret.Results) {
			continue
		}
		w := ""
		if !o.ownedValue(ret.Results[idx], nil, depth+2, &w) {
			o.memo[k] = 2
			*why = fmt.Sprintf("%s can return an existing object at %s: %s", fnName(g), o.c.Pos(ret.Pos()), w)
			return false
		}
	}
	o.memo[k] = 1
	return true
}

func rulePayloadOwn(c *Ctx) {
	c.S.Rule("R-payload-own", textPayloadOwn, 10)
	fPay := c.Field("storeKey", "payload")
	if fPay == nil {
		c.S.Undecided("R-payload-own", "anchor", "-", "storeKey.payload not found")
		return
	}
	o := &ownCtx{c: c, memo: map[string]int{}, fPay: fPay, seen: map[ssa.Value]bool{}}
	dead := map[string]bool{}
	for _, d := range c.M.Muts().dead {
		dead[d] = true
	}
	for _, fn := range c.SrcFuncs() {
		if dead[fnName(fn)] {
			continue
		}
		n := 0
		for _, in := range instrsOf(fn) {
			st, ok := isStoreTo(in, fPay)
			if !ok {
				continue
			}
			n++
			key := fmt.Sprintf("%s:payload#%d", fnName(fn), n)
			fa := st.Addr.(*ssa.FieldAddr)
			why := ""
			o.seen = map[ssa.Value]bool{}
			if o.ownedValue(st.Val, fa.X, 0, &why) {
				c.S.OK("R-payload-own", key, c.Pos(st.Pos()), "the stored object is new or the key's own")
			} else {
				c.S.Bad("R-payload-own", key, c.Pos(st.Pos()), fmt.Sprintf("%s installs a payload that may be shared with another key: %s", fnName(fn), why))
			}
		}
	}
}

const textOperandLoop = "R-C05-operand-loop: a set-algebra worker (result *redisDict, looping over its key-name operands) leaves the operand loop early only to report a failure or to return a newly created empty set (the absorbing case of an intersection); it never returns the partially accumulated result from inside the loop — a missing operand is an empty set, and the operands after it still count"

func ruleOperandLoop(c *Ctx) {
	c.S.Rule("R-C05-operand-loop", textOperandLoop, 3)
	for _, fn := range c.SrcFuncs() {
		res := fn.Signature.Results()
		if fn.Blocks == nil || res.Len() < 1 {
			continue
		}
		if p, ok := res.At(0).Type().(*types.Pointer); !ok || !c.isPkgType(p.Elem(), "redisDict") {
			continue
		}
		// loops over a []string parameter
		n := 0
		for _, h := range fn.Blocks {
			ifi, ok := h.Instrs[len(h.Instrs)-1].(*ssa.If)
			if !ok {
				continue
			}
			bo, ok := ifi.Cond.(*ssa.BinOp)
			if !ok || bo.Op != token.LSS {
				continue
			}
			lc, ok := bo.Y.(*ssa.Call)
			if !ok {
				continue
			}
			if b, isB := lc.Call.Value.(*ssa.Builtin); !isB || b.Name() != "len" {
				continue
			}
			par, ok := lc.Call.Args[0].(*ssa.Parameter)
			if !ok {
				continue
			}
			if sl, isSl := par.Type().Underlying().(*types.Slice); !isSl || sl.Elem().String() != "string" {
				continue
			}
			if !blockInCycle(h) {
				continue
			}
			n++
			body := h.Succs[0]
			key := fmt.Sprintf("%s:loop-over-%s#%d", fnName(fn), par.Name(), n)
			bad := ""
			for _, b := range fn.Blocks {
				ret, ok := b.Instrs[len(b.Instrs)-1].(*ssa.Return)
				if !ok || !(b == body || body.Dominates(b)) {
					continue
				}
				// failure exit?
				fail := false
				for i := 1; i < len(ret.Results); i++ {
					for _, leaf := range phiLeaves(ret.Results[i], map[ssa.Value]bool{}) {
						if k, ok := leaf.(*ssa.Const); ok && k.Value != nil && k.Value.String() == "true" {
							fail = true
						}
					}
				}
				if fail {
					continue
				}
				for _, leaf := range phiLeaves(ret.Results[0], map[ssa.Value]bool{}) {
					if isNilConst(leaf) || isEmptyDictCall(leaf) {
						continue
					}
					bad = fmt.Sprintf("%s returns from inside the loop over %s at %s with the accumulated result (%s): the remaining operands are ignored", fnName(fn), par.Name(), c.Pos(ret.Pos()), leaf.Name())
				}
			}
			if bad == "" {
				c.S.OK("R-C05-operand-loop", key, c.Pos(c.InstrPos(ifi)), "early exits report a failure or return a new empty set")
			} else {
				c.S.Bad("R-C05-operand-loop", key, c.Pos(c.InstrPos(ifi)), bad)
			}
		}
	}
}

func phiLeaves(v ssa.Value, seen map[ssa.Value]bool) []ssa.Value {
	if seen[v] {
		return nil
	}
	seen[v] = true
	if p, ok := v.(*ssa.Phi); ok {
		var out []ssa.Value
		for _, e := range p.Edges {
			out = append(out, phiLeaves(e, seen)...)
		}
		return out
	}
	return []ssa.Value{v}
}

const textStoreNonEmpty = "R-store-nonempty: a dictionary or list that was computed elsewhere (the result of a set-algebra worker, a sort, ...) is installed as a key's payload only on the non-zero side of a test of its count — an empty result deletes the destination instead of leaving an empty aggregate behind (EXISTS 1, TYPE set for a set without members)"

func ruleStoreNonEmpty(c *Ctx) {
	c.S.Rule("R-store-nonempty", textStoreNonEmpty, 1)
	fPay := c.Field("storeKey", "payload")
	fDictCount, fListCount := c.Field("redisDict", "count"), c.Field("storeList", "count")
	if fPay == nil || fDictCount == nil || fListCount == nil {
		c.S.Undecided("R-store-nonempty", "anchor", "-", "storeKey.payload / redisDict.count / storeList.count not found")
		return
	}
	dead := map[string]bool{}
	for _, d := range c.M.Muts().dead {
		dead[d] = true
	}
	for _, fn := range c.SrcFuncs() {
		if dead[fnName(fn)] {
			continue
		}
		if _, ex := m6Exempt[fnName(fn)]; ex {
			continue
		}
		n := 0
		for _, in := range instrsOf(fn) {
			st, ok := isStoreTo(in, fPay)
			if !ok {
				continue
			}
			v := st.Val
			if mi, ok := v.(*ssa.MakeInterface); ok {
				v = mi.X
			}
			p, ok := v.Type().(*types.Pointer)
			if !ok || !(c.isPkgType(p.Elem(), "redisDict") || c.isPkgType(p.Elem(), "storeList")) {
				continue
			}
			n++
			key := fmt.Sprintf("%s:install#%d", fnName(fn), n)
			if isEmptyDictCall(v) || isFresh(v) {
				c.S.Trivial("R-store-nonempty", key, c.Pos(st.Pos()), "created empty here and filled by this function (A4-nonempty-create)")
				continue
			}
			if g, isCall := v.(*ssa.Call); isCall {
				// a copy of an existing aggregate: a method of the aggregate type that returns a new object of the same type
				if cal := g.Call.StaticCallee(); cal != nil && cal.Signature.Recv() != nil && types.Identical(cal.Signature.Recv().Type(), v.Type()) && returnsFreshAlloc(cal) {
					c.S.Trivial("R-store-nonempty", key, c.Pos(st.Pos()), "a clone of an existing (non-empty) aggregate")
					continue
				}
			}
			guarded := false
			for _, b := range fn.Blocks {
				ifi, ok := b.Instrs[len(b.Instrs)-1].(*ssa.If)
				if !ok {
					continue
				}
				bo, ok := ifi.Cond.(*ssa.BinOp)
				if !ok {
					continue
				}
				isCount := func(x ssa.Value) bool {
					u, ok := x.(*ssa.UnOp)
					if !ok {
						return false
					}
					fa, ok := u.X.(*ssa.FieldAddr)
					return ok && (fieldOf(fa) == fDictCount || fieldOf(fa) == fListCount) && fa.X == v
				}
				zero := func(x ssa.Value) bool { k, ok := constInt(x); return ok && k == 0 }
				var nonZeroSucc *ssa.BasicBlock
				switch {
				case isCount(bo.X) && zero(bo.Y) && bo.Op == token.EQL:
					nonZeroSucc = b.Succs[1]
				case isCount(bo.X) && zero(bo.Y) && (bo.Op == token.NEQ || bo.Op == token.GTR):
					nonZeroSucc = b.Succs[0]
				}
				if nonZeroSucc != nil && len(nonZeroSucc.Preds) == 1 && (nonZeroSucc == st.Block() || nonZeroSucc.Dominates(st.Block())) {
					guarded = true
				}
			}
			if guarded {
				c.S.OK("R-store-nonempty", key, c.Pos(st.Pos()), "installed only when its count is not zero")
			} else {
				c.S.Bad("R-store-nonempty", key, c.Pos(st.Pos()), fmt.Sprintf("%s installs a computed %s as payload without testing that it is not empty: an empty result leaves an empty key behind", fnName(fn), p.Elem().String()))
			}
		}
	}
}

const textSelfMove = "R-C05-self-move: a function that takes a member out of the dictionary found under one key-name parameter and puts the same member into the dictionary of another key-name parameter compares the two key names (or the two dictionaries): inserting an existing member is a no-op, so with source = destination the removal would simply lose the member"

func ruleSelfMove(c *Ctx) {
	c.S.Rule("R-C05-self-move", textSelfMove, 1)
	mm := c.M.Muts()
	isStr := func(v ssa.Value) bool {
		b, ok := v.Type().Underlying().(*types.Basic)
		return ok && b.Kind() == types.String
	}
	// functions that insert into the dictionary found under their key-name parameter (index)
	inserts := map[*ssa.Function]bool{}
	for _, fn := range c.SrcFuncs() {
		for _, s := range mm.sites[fn] {
			if s.Kind == "dict-store" && !s.Keyspace {
				inserts[fn] = true
			}
		}
	}
	n := 0
	for _, fn := range c.SrcFuncs() {
		// nested removes in this function
		var rem *MutSite
		for _, s := range mm.sites[fn] {
			if s.Kind == "dict-remove" && !s.Keyspace {
				rem = s
			}
		}
		if rem == nil {
			continue
		}
		var strParams []*ssa.Parameter
		for _, p := range fn.Params {
			if isStr(p) {
				strParams = append(strParams, p)
			}
		}
		if len(strParams) < 2 {
			continue
		}
		// an insertion through a callee keyed by a different string parameter than the lookups of the removed dictionary
		var insCall *ssa.Call
		var insKey *ssa.Parameter
		for _, in := range instrsOf(fn) {
			call, ok := in.(*ssa.Call)
			if !ok {
				continue
			}
			g := call.Call.StaticCallee()
			if g == nil || !inserts[g] {
				continue
			}
			for _, a := range call.Call.Args {
				if p, ok := a.(*ssa.Parameter); ok && isStr(p) {
					insCall, insKey = call, p
				}
			}
		}
		if insCall == nil {
			continue
		}
		// key parameter of the removed dictionary: the receiver chain of the remove leads to a lookup call with a string parameter
		var remKey *ssa.Parameter
		if rc, ok := rem.In.(*ssa.Call); ok && len(rc.Call.Args) > 0 {
			v := rc.Call.Args[0]
			for d := 0; d < 6 && remKey == nil; d++ {
				switch x := v.(type) {
				case *ssa.Extract:
					v = x.Tuple
				case *ssa.Call:
					for _, a := range x.Call.Args {
						if p, ok := a.(*ssa.Parameter); ok && isStr(p) {
							remKey = p
						}
					}
					if remKey == nil && len(x.Call.Args) > 0 {
						v = x.Call.Args[0]
					} else {
						d = 6
					}
				default:
					d = 6
				}
			}
		}
		if remKey == nil || remKey == insKey {
			continue
		}
		n++
		key := fmt.Sprintf("%s:%s->%s", fnName(fn), remKey.Name(), insKey.Name())
		compared := false
		for _, in := range instrsOf(fn) {
			if bo, ok := in.(*ssa.BinOp); ok && (bo.Op == token.EQL || bo.Op == token.NEQ) {
				if (bo.X == ssa.Value(remKey) && bo.Y == ssa.Value(insKey)) || (bo.X == ssa.Value(insKey) && bo.Y == ssa.Value(remKey)) {
					compared = true
				}
			}
		}
		if compared {
			c.S.OK("R-C05-self-move", key, c.Pos(insCall.Pos()), "the two key names are compared")
		} else {
			c.S.Bad("R-C05-self-move", key, c.Pos(insCall.Pos()), fmt.Sprintf("%s inserts the member into the dictionary under %s and removes it from the one under %s without ever comparing the two names: with %s = %s the insertion is a no-op and the removal loses the member", fnName(fn), insKey.Name(), remKey.Name(), remKey.Name(), insKey.Name()))
		}
	}
	if n == 0 {
		c.S.Undecided("R-C05-self-move", "instances", "-", "no function moves a member between the dictionaries of two key names (SMOVE expected)")
	}
}
