package redisemu

import "testing"

// C01/C02/C06: client text is bytes. LCS of two equal binary values is that value; a pattern byte
// matches that byte only; `?` stands for one byte, as in Redis (stringmatchlen is byte-wise).
func TestDemoC02LcsBinary(t *testing.T) {
	s := startDemo(t, "")
	defer s.stop()
	c := s.dial(t)
	c.do("SET", "a", "x\xff\xfey")
	c.do("SET", "b", "x\xff\xfey")
	expect(t, "LCS of two equal values that are not valid UTF-8", c.do("LCS", "a", "b"), "\"x\\xff\\xfey\"")
	c.do("SET", "e1", "\xc3\xa9") // é
	c.do("SET", "e2", "\xc3\xa8") // è — shares the first byte
	expect(t, "LCS é è LEN (one common byte)", c.do("LCS", "e1", "e2", "LEN"), ":1")
}

func TestDemoC06KeysBytewise(t *testing.T) {
	s := startDemo(t, "")
	defer s.stop()
	c := s.dial(t)
	c.do("SET", "\xff", "1")
	expect(t, "KEYS \\xfe must not match the key \\xff", c.do("KEYS", "\xfe"), "[]")
	expect(t, "KEYS \\xff", c.do("KEYS", "\xff"), "[\"\\xff\"]")
	c.do("FLUSHALL")
	c.do("SET", "\xc3\xa9", "1") // a two-byte key
	expect(t, "KEYS ?? matches a two-byte key", c.do("KEYS", "??"), "[\"\xc3\xa9\"]")
	expect(t, "KEYS ? does not", c.do("KEYS", "?"), "[]")
}
