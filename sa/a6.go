package main

// A6 — expiry filter: who may read the keyspace raw.
// Expiry is lazy: an expired object stays in dataStore.data until something removes it, so every
// reader of the keyspace must go through the expiry-aware lookup or test expiry itself.

import (
	"fmt"
	"go/token"
	"go/types"

	"golang.org/x/tools/go/ssa"
)

const textA6 = "A6 (expiry filter): every read of a database's keyspace dictionary (get / iteration / direct bucket or count access / handing the dictionary to a helper) is (a) in a raw-lookup function all of whose callers are expiry filters — they test isExpired on the object and yield (nil,false) on the expired edge —, or (b) an iteration that tests isExpired on each element before using it, or (c) the snapshot writer (which must see every stored key)"

// rawConsumers: functions allowed to read the keyspace without the filter, with the reason.
// Filled per run with the snapshot writer, identified structurally (the function that drives a gob.Encoder).
var rawConsumers = map[string]string{}

type expiryModel struct {
	isExpired map[*ssa.Function]bool // methods on storeKey comparing time.Now() with expiresAt
}

func (m *Models) expiryFns() map[*ssa.Function]bool {
	p := m.p
	out := map[*ssa.Function]bool{}
	fExp := p.Field("storeKey", "expiresAt")
	for _, fn := range p.SrcFuncs() {
		if fn.Signature.Recv() == nil || !p.isPkgType(fn.Signature.Recv().Type(), "storeKey") {
			continue
		}
		if fn.Signature.Results().Len() != 1 {
			continue
		}
		if b, ok := fn.Signature.Results().At(0).Type().Underlying().(*types.Basic); !ok || b.Kind() != types.Bool {
			continue
		}
		now, exp := false, false
		for _, in := range instrsOf(fn) {
			if c, ok := in.(*ssa.Call); ok && fullCalleeName(c) == "time.Now" {
				now = true
			}
			if u, ok := in.(*ssa.UnOp); ok && u.Op == token.MUL {
				if fa, ok := u.X.(*ssa.FieldAddr); ok && fieldOf(fa) == fExp {
					exp = true
				}
			}
		}
		if now && exp {
			out[fn] = true
		}
	}
	return out
}

// isKeyspace: v is a load of dataStore.data.
func (m *Models) isKeyspace(v ssa.Value) bool {
	_, f := loadedField(v)
	return f != nil && f == m.Muts().fKeyspace
}

// derivesFrom: v is derived from src through type assertions, field loads of iterator/items, extracts, phis.
func derivesFrom(v, src ssa.Value, depth int) bool {
	if v == src {
		return true
	}
	if depth > 8 {
		return false
	}
	switch x := v.(type) {
	case *ssa.TypeAssert:
		return derivesFrom(x.X, src, depth+1)
	case *ssa.Extract:
		return derivesFrom(x.Tuple, src, depth+1)
	case *ssa.UnOp:
		return derivesFrom(x.X, src, depth+1)
	case *ssa.FieldAddr:
		return derivesFrom(x.X, src, depth+1)
	case *ssa.Field:
		return derivesFrom(x.X, src, depth+1)
	case *ssa.IndexAddr:
		return derivesFrom(x.X, src, depth+1)
	case *ssa.ChangeType:
		return derivesFrom(x.X, src, depth+1)
	case *ssa.Phi:
		for _, e := range x.Edges {
			if derivesFrom(e, src, depth+1) {
				return true
			}
		}
	}
	return false
}

// hasExpiryTest: fn contains a call to an isExpired method whose result feeds a branch.
func hasExpiryTest(fn *ssa.Function, isExp map[*ssa.Function]bool) (ssa.Instruction, bool) {
	for _, in := range instrsOf(fn) {
		c, ok := in.(*ssa.Call)
		if !ok {
			continue
		}
		if cal := c.Call.StaticCallee(); cal != nil && isExp[cal] {
			if feedsBranch(c, 0) {
				return in, true
			}
		}
	}
	return nil, false
}

func feedsBranch(v ssa.Value, depth int) bool {
	if depth > 4 {
		return false
	}
	for _, r := range referrers(v) {
		switch x := r.(type) {
		case *ssa.If:
			return true
		case *ssa.UnOp:
			if feedsBranch(x, depth+1) {
				return true
			}
		case *ssa.BinOp:
			if feedsBranch(x, depth+1) {
				return true
			}
		case *ssa.Phi:
			if feedsBranch(x, depth+1) {
				return true
			}
		}
	}
	return false
}

// isFilter: g calls raw lookup `call`, tests expiry on its result, and after the expired edge only
// returns (nil,false)-like constants.
func (m *Models) isFilter(g *ssa.Function, call *ssa.Call, isExp map[*ssa.Function]bool) (bool, string) {
	for _, in := range instrsOf(g) {
		c, ok := in.(*ssa.Call)
		if !ok {
			continue
		}
		cal := c.Call.StaticCallee()
		if cal == nil || !isExp[cal] || len(c.Call.Args) == 0 {
			continue
		}
		if !derivesFrom(c.Call.Args[0], call, 0) {
			continue
		}
		// find the If on this result
		for _, r := range referrers(c) {
			ifi, ok := r.(*ssa.If)
			if !ok {
				continue
			}
			expired := ifi.Block().Succs[0]
			reach := reachableFrom(expired, nil)
			n := 0
			for b := range reach {
				ret, ok := b.Instrs[len(b.Instrs)-1].(*ssa.Return)
				if !ok {
					continue
				}
				n++
				for _, rv := range ret.Results {
					cst, isC := rv.(*ssa.Const)
					if !isC {
						// a phi is acceptable only if the edge(s) coming from the expired region are constants
						if phi, isPhi := rv.(*ssa.Phi); isPhi {
							okPhi := true
							for i, e := range phi.Edges {
								if reach[phi.Block().Preds[i]] || phi.Block().Preds[i] == ifi.Block() && phi.Block() == expired {
									if ce, isCe := e.(*ssa.Const); !isCe || !(ce.Value == nil || ce.Value.String() == "false") {
										okPhi = false
									}
								}
							}
							if okPhi {
								continue
							}
						}
						return false, "a return reachable from the expired edge yields a non-constant value"
					}
					if !(cst.Value == nil || cst.Value.String() == "false") {
						return false, "a return reachable from the expired edge does not yield nil/false"
					}
				}
			}
			if n == 0 {
				return false, "no return after the expired edge"
			}
			// the not-expired side must not be the only user: also require that the object is not returned
			// before the test (the test dominates every return that can carry the object)
			for _, b := range g.Blocks {
				ret, ok := b.Instrs[len(b.Instrs)-1].(*ssa.Return)
				if !ok {
					continue
				}
				for _, rv := range ret.Results {
					if _, isPtr := rv.Type().Underlying().(*types.Pointer); !isPtr {
						continue
					}
					if cst, isC := rv.(*ssa.Const); isC && cst.Value == nil {
						continue
					}
					if !ifi.Block().Dominates(b) {
						// allowed when the raw lookup reported "not found" (sk is nil there)
						if !returnsAfterNotFound(b, call) {
							return false, "the object can be returned on a path that bypasses the expiry test"
						}
					}
				}
			}
			return true, ""
		}
	}
	return false, "no expiry test on the looked-up object"
}

// returnsAfterNotFound: block b is dominated by the false edge of an If on the `exists` result of call.
func returnsAfterNotFound(b *ssa.BasicBlock, call *ssa.Call) bool {
	for _, r := range referrers(call) {
		ex, ok := r.(*ssa.Extract)
		if !ok || ex.Index != 1 {
			continue
		}
		for _, rr := range referrers(ex) {
			if ifi, ok := rr.(*ssa.If); ok {
				if ifi.Block().Succs[1].Dominates(b) || ifi.Block().Succs[1] == b {
					return true
				}
			}
			if u, ok := rr.(*ssa.UnOp); ok && u.Op == token.NOT {
				for _, r3 := range referrers(u) {
					if ifi, ok := r3.(*ssa.If); ok {
						if ifi.Block().Succs[0].Dominates(b) || ifi.Block().Succs[0] == b {
							return true
						}
					}
				}
			}
		}
	}
	return false
}

func ruleA6(c *Ctx) {
	c.S.Rule("A6-expiry", textA6, 8)
	m := c.M
	p := c.Prog
	mm := m.Muts()
	if len(mm.errs) > 0 {
		c.S.Undecided("A6-expiry", "model", "-", mm.errs[0])
		return
	}
	rawConsumers = map[string]string{}
	if pa := c.persist(); pa.writer != nil {
		rawConsumers[fnName(pa.writer)] = "snapshot writer (drives the gob encoder): must persist every stored key, the deadline is stored with it"
		// helpers that only the snapshot writer calls are parts of it
		for round := 0; round < 3; round++ {
			for _, fn := range p.SrcFuncs() {
				if _, is := rawConsumers[fnName(fn)]; is || fn.Parent() != nil {
					continue
				}
				node := c.CG.Nodes[fn]
				if node == nil || len(node.In) == 0 {
					continue
				}
				only := true
				for _, e := range node.In {
					if _, is := rawConsumers[fnName(e.Caller.Func)]; !is {
						only = false
					}
				}
				if only {
					rawConsumers[fnName(fn)] = "called only by the snapshot writer: a part of it"
				}
			}
		}
	}
	isExp := m.expiryFns()
	if len(isExp) == 0 {
		c.S.Undecided("A6-expiry", "isExpired", "-", "no method on storeKey compares time.Now() with expiresAt")
		return
	}
	fBuckets := p.Field("redisDict", "buckets")
	fCount := p.Field("redisDict", "count")
	// dictionary reader methods
	isDictMethod := func(f *ssa.Function) bool {
		return f != nil && f.Signature.Recv() != nil && p.isPkgType(f.Signature.Recv().Type(), "redisDict")
	}
	// the result of a removal from the keyspace says whether an object was stored under the name — expired or not;
	// using it (to count, to decide) is a read of the keyspace that ignores expiry
	for _, fn := range p.SrcFuncs() {
		if isDictMethod(fn) {
			continue
		}
		k := 0
		for _, in := range instrsOf(fn) {
			call, ok := in.(*ssa.Call)
			if !ok || len(call.Call.Args) == 0 {
				continue
			}
			cal := call.Call.StaticCallee()
			if cal == nil || !mm.dictRem[cal] {
				continue
			}
			if _, rf := loadedField(call.Call.Args[0]); rf != mm.fKeyspace {
				continue
			}
			if len(referrers(call)) == 0 {
				continue
			}
			k++
			c.S.Bad("A6-expiry", fmt.Sprintf("%s:remove-result#%d", fnName(fn), k), c.Pos(call.Pos()), fmt.Sprintf("%s uses the result of removing a name from the keyspace (was something stored?) — that is true for a key whose deadline has passed as well: the command counts or reports a dead key as present", fnName(fn)))
		}
	}
	rawLookups := map[*ssa.Function][]*ssa.Call{} // function -> its keyspace get calls
	for _, fn := range p.SrcFuncs() {
		if isDictMethod(fn) {
			continue
		}
		ord := map[string]int{}
		mk := func(what string) string {
			ord[what]++
			if ord[what] > 1 {
				return fmt.Sprintf("%s:%s#%d", fnName(fn), what, ord[what])
			}
			return fnName(fn) + ":" + what
		}
		for _, in := range instrsOf(fn) {
			pos := c.Pos(c.InstrPos(in))
			switch x := in.(type) {
			case *ssa.Call:
				cal := x.Call.StaticCallee()
				// (1) dictionary method on the keyspace
				if isDictMethod(cal) && len(x.Call.Args) > 0 && m.isKeyspace(x.Call.Args[0]) {
					if mm.dictStore[cal] || mm.dictRem[cal] {
						continue // writes are not reads
					}
					returnsValue := false
					res := cal.Signature.Results()
					for i := 0; i < res.Len(); i++ {
						if _, isIface := res.At(i).Type().Underlying().(*types.Interface); isIface {
							returnsValue = true
						}
					}
					if returnsValue {
						rawLookups[fn] = append(rawLookups[fn], x)
						continue
					}
					// iterator or other reader: needs an expiry test in this function on what it yields
					key := mk("keyspace." + cal.Name())
					if why, ok := rawConsumers[fnName(fn)]; ok {
						c.S.Trivial("A6-expiry", key, pos, "allowed raw consumer: "+why)
					} else if _, ok := hasExpiryTest(fn, isExp); ok {
						c.S.OK("A6-expiry", key, pos, "iteration tests isExpired on each element")
					} else if visitorTestsExpiry(x, isExp) {
						c.S.OK("A6-expiry", key, pos, "the visitor handed to the iteration tests isExpired on each element")
					} else {
						c.S.Bad("A6-expiry", key, pos, fmt.Sprintf("%s reads the keyspace through %s without testing expiry", fnName(fn), cal.Name()))
					}
					continue
				}
				// (2) keyspace dictionary handed to another function
				for ai, a := range x.Call.Args {
					if !m.isKeyspace(a) || (isDictMethod(cal) && ai == 0) {
						continue
					}
					key := mk("keyspace passed to " + calleeName(x))
					ok := false
					for _, a2 := range x.Call.Args {
						if mc, isMc := stripValue(a2).(*ssa.MakeClosure); isMc {
							if f2, isF := mc.Fn.(*ssa.Function); isF {
								if _, has := hasExpiryTest(f2, isExp); has && acceptsOnlyLive(f2, isExp) {
									ok = true
								}
							}
						}
					}
					if ok {
						c.S.OK("A6-expiry", key, pos, "the accompanying callback tests isExpired on each element")
					} else {
						c.S.Bad("A6-expiry", key, pos, fmt.Sprintf("%s hands the keyspace dictionary to %s without a callback that tests expiry on every way it accepts an entry", fnName(fn), calleeName(x)))
					}
				}
			case *ssa.UnOp:
				// (3) direct bucket / count access on the keyspace
				if x.Op != token.MUL {
					continue
				}
				fa, ok := x.X.(*ssa.FieldAddr)
				if !ok || !m.isKeyspace(fa.X) {
					continue
				}
				f := fieldOf(fa)
				if f != fBuckets && f != fCount {
					continue
				}
				key := mk("keyspace." + f.Name())
				if why, ok := rawConsumers[fnName(fn)]; ok {
					c.S.Trivial("A6-expiry", key, pos, "allowed raw consumer: "+why)
				} else if _, ok := hasExpiryTest(fn, isExp); ok {
					c.S.OK("A6-expiry", key, pos, "function tests isExpired on the elements it reads")
				} else {
					c.S.Bad("A6-expiry", key, pos, fmt.Sprintf("%s reads %s of the keyspace directly and never tests expiry (expired keys are counted / returned)", fnName(fn), f.Name()))
				}
			}
		}
	}
	// raw lookups: every caller must be a filter
	if len(rawLookups) == 0 {
		c.S.Undecided("A6-expiry", "raw-lookup", "-", "no function performs a get on the keyspace dictionary")
	}
	for L, gets := range rawLookups {
		// L itself may be a filter (lookup and test in one function)
		selfFilter := false
		if _, ok := hasExpiryTest(L, isExp); ok {
			all := true
			for _, g := range gets {
				if ok2, _ := m.isFilter(L, g, isExp); !ok2 {
					all = false
				}
			}
			selfFilter = all
		}
		if selfFilter {
			c.S.OK("A6-expiry", fnName(L)+":keyspace.get", c.Pos(L.Pos()), "lookup and expiry test in one function")
			continue
		}
		callers := 0
		for _, g := range p.SrcFuncs() {
			ord := 0
			for _, in := range instrsOf(g) {
				call, ok := in.(*ssa.Call)
				if !ok || call.Call.StaticCallee() != L {
					continue
				}
				callers++
				ord++
				key := fmt.Sprintf("%s:calls %s", fnName(g), fnName(L))
				if ord > 1 {
					key += fmt.Sprintf("#%d", ord)
				}
				if why, ok := rawConsumers[fnName(g)]; ok {
					c.S.Trivial("A6-expiry", key, c.Pos(call.Pos()), "allowed raw consumer: "+why)
					continue
				}
				if ok, why := m.isFilter(g, call, isExp); ok {
					c.S.OK("A6-expiry", key, c.Pos(call.Pos()), "caller is an expiry filter: tests isExpired, yields (nil,false) on the expired edge")
				} else {
					c.S.Bad("A6-expiry", key, c.Pos(call.Pos()),
						fmt.Sprintf("%s looks a key up with the raw %s and is not an expiry filter (%s): an expired key is treated as present", fnName(g), fnName(L), why))
				}
			}
		}
		if callers == 0 {
			c.S.Trivial("A6-expiry", fnName(L)+":keyspace.get", c.Pos(L.Pos()), "raw lookup without callers")
		}
	}
}

// visitorTestsExpiry: the call hands a closure (a visitor for `forEach`) to the reader, and that closure tests expiry on
// what it is given.
func visitorTestsExpiry(call *ssa.Call, isExp map[*ssa.Function]bool) bool {
	for _, a := range call.Call.Args {
		if mc, ok := stripValue(a).(*ssa.MakeClosure); ok {
			if g, ok := mc.Fn.(*ssa.Function); ok {
				if _, has := hasExpiryTest(g, isExp); has && acceptsOnlyLive(g, isExp) {
					return true
				}
			}
		}
	}
	return false
}

// acceptsOnlyLive: every return of the visitor that accepts the entry (a result that is not nil / not false) lies on the
// "not expired" side of the expiry test — a second way out that accepts without the test (a TYPE filter answered before
// the expiry test) lets dead keys through.
func acceptsOnlyLive(g *ssa.Function, isExp map[*ssa.Function]bool) bool {
	// blocks on the live side: dominated by the successor of an If on (a negation of) the expiry call that means "not expired"
	live := func(b *ssa.BasicBlock) bool {
		for x := b; x != nil && x.Idom() != nil; x = x.Idom() {
			d := x.Idom()
			ifi, ok := d.Instrs[len(d.Instrs)-1].(*ssa.If)
			if !ok {
				continue
			}
			cond, neg := ifi.Cond, false
			for {
				u, isU := cond.(*ssa.UnOp)
				if !isU || u.Op != token.NOT {
					break
				}
				cond, neg = u.X, !neg
			}
			c2, ok := cond.(*ssa.Call)
			if !ok || c2.Call.StaticCallee() == nil || !isExp[c2.Call.StaticCallee()] {
				continue
			}
			for i, s := range d.Succs {
				if (s == x || s.Dominates(x)) && len(s.Preds) == 1 {
					expiredSide := (i == 0) != neg
					if !expiredSide {
						return true
					}
				}
			}
		}
		return false
	}
	for _, b := range g.Blocks {
		ret, ok := b.Instrs[len(b.Instrs)-1].(*ssa.Return)
		if !ok || len(ret.Results) == 0 {
			continue
		}
		// which incoming values accept? (results merged by a phi are judged edge by edge)
		r := ret.Results[0]
		type src struct {
			v   ssa.Value
			blk *ssa.BasicBlock
		}
		var srcs []src
		if phi, isPhi := r.(*ssa.Phi); isPhi && phi.Block() == b {
			for i, e := range phi.Edges {
				srcs = append(srcs, src{e, b.Preds[i]})
			}
		} else {
			srcs = append(srcs, src{r, b})
		}
		for _, s := range srcs {
			v := s.v
			if isNilConst(v) {
				continue
			}
			if k, isC := v.(*ssa.Const); isC && k.Value != nil && k.Value.String() == "false" {
				continue
			}
			if !live(s.blk) {
				return false
			}
		}
	}
	return true
}
