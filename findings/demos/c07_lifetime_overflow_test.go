package redisemu

import "testing"

// C07: a relative lifetime that does not fit into the clock's range is refused (Redis: "invalid expire time"); it must
// not wrap round into a deadline in the past that deletes the key while the command answers 1 / OK.
func TestDemoC07LifetimeOverflow(t *testing.T) {
	s := startDemo(t, "")
	defer s.stop()
	c := s.dial(t)
	c.do("SET", "k", "v")
	expectErr(t, "EXPIRE k 9223372037", c.do("EXPIRE", "k", "9223372037"), "-ERR invalid expire time")
	expect(t, "EXISTS k", c.do("EXISTS", "k"), ":1")
	expectErr(t, "PEXPIRE k 9223372036855", c.do("PEXPIRE", "k", "9223372036855"), "-ERR invalid expire time")
	expect(t, "EXISTS k", c.do("EXISTS", "k"), ":1")
	expect(t, "EXPIRE k 100", c.do("EXPIRE", "k", "100"), ":1")
	expectErr(t, "SET k2 v EX 9223372037", c.do("SET", "k2", "v", "EX", "9223372037"), "-ERR")
	expect(t, "EXISTS k2", c.do("EXISTS", "k2"), ":0")
	expectErr(t, "SET k3 v PX 9223372036855", c.do("SET", "k3", "v", "PX", "9223372036855"), "-ERR")
	expect(t, "EXISTS k3", c.do("EXISTS", "k3"), ":0")
	expect(t, "SET k4 v EX 100", c.do("SET", "k4", "v", "EX", "100"), "+OK")
}

func expectErr(t *testing.T, what, got, prefix string) {
	t.Helper()
	if len(got) < len(prefix) || got[:len(prefix)] != prefix {
		t.Errorf("%s: got %s, want a reply starting with %s", what, got, prefix)
	} else {
		t.Logf("%s: %s", what, got)
	}
}

// RESTORE with a relative lifetime that does not fit: refused, no key appears (and none that is already dead).
func TestDemoC07RestoreLifetimeOverflow(t *testing.T) {
	ts := NewRedisTestClient(t)
	defer ts.Close()
	ts.ProcessCommand("set", "src", "cat")
	dumped := ts.ProcessCommand("dump", "src")
	val, valid := dumped.toString()
	if !valid {
		t.Fatal("dump failed")
	}
	out := ts.ProcessCommand("restore", "dst", "9223372036855", val)
	if _, isErr := out.data.(respErrorString); !isErr {
		t.Errorf("RESTORE dst 9223372036855 <payload>: got %v, want an error reply", out.data)
	}
	n := ts.ProcessCommand("exists", "dst")
	if !n.isInt(0) {
		t.Errorf("EXISTS dst after the refused RESTORE: %v", n.data)
	}
	out = ts.ProcessCommand("restore", "dst2", "100000", val)
	if !out.isString("OK") {
		t.Errorf("RESTORE dst2 100000 <payload>: got %v, want OK", out.data)
	}
	n = ts.ProcessCommand("exists", "dst2")
	if !n.isInt(1) {
		t.Errorf("EXISTS dst2: %v", n.data)
	}
}
